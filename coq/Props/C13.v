(** C13 — Peer messages round-trip through the wire format and decoding is total.
    Only statements closed by [exact]; proofs are in Proofs/C13*.v.  The model (Codec/*.v) is a
    transliteration of lightning/src/util/ser.rs + ser_macros.rs; the message schemas
    (Gen/MsgSchemas.v) are regenerated from lightning/src/ln/msgs.rs + wire.rs on every run.
    [pk] is the one oracle: "these 33 bytes are a valid compressed secp256k1 point". *)
Require Import LdkV.Prim.U64 LdkV.Codec.Combinators LdkV.Codec.Tlv LdkV.Codec.Wire LdkV.Gen.MsgSchemas.
Require Import LdkV.Proofs.C13Base LdkV.Proofs.C13Tlv LdkV.Proofs.C13Msg LdkV.Proofs.C13.
Require Import LdkV.Codec.Addr LdkV.Gen.WireLens LdkV.Proofs.C13Addr.
Open Scope Z_scope.

(** BigSize: round trip for every u64, and canonicity (whatever decodes is the minimal encoding). *)
Theorem C13_bigsize_roundtrip : forall v r, 0 <= v < 2 ^ 64 -> bigsize_dec (bigsize_enc v ++ r) = ROk (v, r).
Proof. exact bigsize_rt. Qed.

Theorem C13_bigsize_canonical : forall b v r, bytes_ok b = true -> bigsize_dec b = ROk (v, r) ->
  b = bigsize_enc v ++ r /\ 0 <= v < 2 ^ 64.
Proof. exact bigsize_canon. Qed.

Theorem C13_bigsize_nonminimal_rejected : forall r,
  (forall x, 0 <= x < 0xFD -> bigsize_dec (0xFD :: be_enc 2 x ++ r) = RErr "InvalidValue") /\
  (forall x, 0 <= x < 0x10000 -> bigsize_dec (0xFE :: be_enc 4 x ++ r) = RErr "InvalidValue") /\
  (forall x, 0 <= x < 0x100000000 -> bigsize_dec (0xFF :: be_enc 8 x ++ r) = RErr "InvalidValue").
Proof. exact bigsize_nonminimal. Qed.

(** Every schema extracted from the source is well formed: write side = read side (names, codecs,
    TLV numbers and kinds), fixed fields self-delimiting, TLV types strictly ascending; and no two
    messages share a type id. *)
Theorem C13_schemas_wf : forallb schema_wf all_schemas = true /\ types_distinct [] all_schemas = true.
Proof. exact schemas_wf. Qed.

(** Round trip, for ANY well-formed schema and any value in the codecs' domains... *)
Theorem C13_generic_roundtrip : forall pk s m, schema_wf s = true -> msg_dom pk s m = true ->
  msg_dec pk s (msg_enc s m) = ROk (m, []).
Proof. exact msg_roundtrip. Qed.

(** ... hence for every message schema extracted from msgs.rs (payload level and frame level). *)
Theorem C13_msg_roundtrip : forall pk s m, In s all_schemas -> msg_dom pk s m = true ->
  msg_dec pk s (msg_enc s m) = ROk (m, []).
Proof. exact extracted_roundtrip. Qed.

Theorem C13_wire_roundtrip : forall pk s m, In s all_schemas -> msg_dom pk s m = true ->
  wire_dec pk all_schemas (frame_enc s m) = ROk (WKnown s m).
Proof. exact extracted_wire_roundtrip. Qed.

(** onion_message (type 513; hand schema pinned to the text of the OnionMessage and
    onion_message::packet::Packet impls): round trip for ANY hop_data length, i.e. any packet of
    66..65535 bytes whose key is a valid point. *)
Theorem C13_onion_message_packet_roundtrip : forall pk b rest, 66 <= len b < 65536 -> pk (zdrop 1 (ztake 34 b)) = true ->
  bdec pk BOmPacket (benc BOmPacket (VB b) ++ rest) = ROk (VB b, rest).
Proof. exact om_packet_roundtrip. Qed.

Theorem C13_onion_message_roundtrip : forall pk m, msg_dom pk s_OnionMessage m = true ->
  msg_dec pk s_OnionMessage (msg_enc s_OnionMessage m) = ROk (m, []).
Proof. exact onion_message_roundtrip. Qed.

(** TLV streams in isolation (shared with C12). *)
Theorem C13_tlv_roundtrip : forall pk es vals, tlvs_wf es = true -> tlv_dom pk es vals = true ->
  tlv_dec pk es (tlv_enc es vals) = ROk vals.
Proof. exact tlv_roundtrip. Qed.

(** Unknown odd TLV records are ignored wherever the ordering allows one (between the fields [es1]
    and [es2], including before the first and after the last): the result is exactly the result
    without the record. *)
Theorem C13_unknown_odd_tlv_ignored : forall pk es1 es2 v1 v2 t w,
  tlvs_wf (es1 ++ es2) = true -> tlv_dom pk es1 v1 = true -> tlv_dom pk es2 v2 = true ->
  t mod 2 = 1 -> hi (-1) es1 < t < 2 ^ 64 -> tys_ascending t es2 = true -> len w < 2 ^ 64 ->
  tlv_dec pk (es1 ++ es2) (tlv_enc es1 v1 ++ rec_enc t w ++ tlv_enc es2 v2) = ROk (v1 ++ v2).
Proof. exact tlv_unknown_odd_ignored. Qed.

(** Rejections (state of the loop: [last] = last seen type, [acc] = records read so far; these hold
    at any point of a stream, whatever was read before and whatever follows). *)
Theorem C13_rejects_unknown_even_tlv : forall pk es t r fuel last acc,
  find_entry es t = None -> t mod 2 = 0 -> 0 <= t < 2 ^ 64 ->
  lt_opt last t = true -> order_check es last t = true ->
  forall n r2, bigsize_dec r = ROk (n, r2) ->
  tlv_loop pk es (S fuel) last acc (bigsize_enc t ++ r) = RErr "UnknownRequiredFeature".
Proof. exact step_unknown_even. Qed.

Theorem C13_rejects_out_of_order_tlv : forall pk es t l r fuel acc,
  0 <= t < 2 ^ 64 -> t <= l ->
  tlv_loop pk es (S fuel) (Some l) acc (bigsize_enc t ++ r) = RErr "InvalidValue".
Proof. exact step_out_of_order. Qed.

Theorem C13_rejects_truncated_tlv : forall pk es t n w fuel last acc,
  find_entry es t = None -> t mod 2 = 1 -> 0 <= t < 2 ^ 64 -> 0 <= n < 2 ^ 64 -> len w < n ->
  lt_opt last t = true -> order_check es last t = true ->
  tlv_loop pk es (S fuel) last acc (bigsize_enc t ++ bigsize_enc n ++ w) = RErr "ShortRead".
Proof. exact step_truncated. Qed.

Theorem C13_rejects_partial_tlv_type : forall pk es x fuel last acc,
  (x = 0xFD \/ x = 0xFE \/ x = 0xFF) -> tlv_loop pk es (S fuel) last acc [x] = RErr "ShortRead".
Proof. exact step_partial_type. Qed.

Theorem C13_rejects_truncated_fixed_field : forall pk n b, len b < n -> bdec pk (BBytes n) b = RErr "ShortRead".
Proof. exact fixed_truncated. Qed.

(** Decoding is a total function of the frame; what it reports unread is a suffix of its input. *)
Theorem C13_total_no_overread : forall pk s b m r, msg_dec pk s b = ROk (m, r) -> exists p, b = p ++ r.
Proof. exact msg_dec_suffix. Qed.

Theorem C13_tlv_fuel_irrelevant : forall pk es f1 f2 last acc b,
  (List.length b <= f1)%nat -> (List.length b <= f2)%nat ->
  tlv_loop pk es f1 last acc b = tlv_loop pk es f2 last acc b.
Proof. exact tlv_fuel_irrelevant. Qed.

(** Unknown message types: [Message::Unknown ty], the payload is not looked at. *)
Theorem C13_unknown_types : forall pk ty payload, 0 <= ty < 65536 ->
  existsb (fun s => s_type s =? ty) all_schemas = false ->
  wire_dec pk all_schemas (be_enc 2 ty ++ payload) = ROk (WUnknown ty).
Proof. exact extracted_unknown_type. Qed.

(** CollectionLength (prefix of Vec<u8>, String and the impl_for_vec! collections; shared with C12):
    round trip for every u64, canonicity, and the form of the encoding: two bytes exactly below
    0xffff, the ten-byte escape form from 0xffff on (0xffff itself included). *)
Theorem C13_collection_length_roundtrip : forall n r, 0 <= n < 2 ^ 64 -> cl_dec (cl_enc n ++ r) = ROk (n, r).
Proof. exact cl_rt. Qed.

Theorem C13_collection_length_canonical : forall b n r, bytes_ok b = true -> cl_dec b = ROk (n, r) ->
  b = cl_enc n ++ r /\ 0 <= n < 2 ^ 64.
Proof. exact cl_canon. Qed.

Theorem C13_collection_length_form : forall n, 0 <= n ->
  (n < 0xFFFF -> cl_enc n = be_enc 2 n) /\
  (0xFFFF <= n -> cl_enc n = [0xFF; 0xFF] ++ be_enc 8 (n - 0xFFFF)).
Proof. exact cl_enc_form. Qed.

(** The branch conditions of the model are the ones in the source: [cl_write_short_form] and
    [cl_read_escape] are the [if] conditions of CollectionLength's write and read, re-extracted by rs2v
    on every run (Gen/WireLens.v); with the condition as written in the source the escape form still
    round-trips. *)
Theorem C13_collection_length_matches_source : forall n r,
  cl_enc n = (if cl_write_short_form n then be_enc 2 n else be_enc 2 0xFFFF ++ be_enc 8 (n - 0xFFFF)) /\
  (forall v, cl_read_escape v = (v =? 0xFFFF)) /\
  (cl_write_short_form n = false -> 0 <= n < 2 ^ 64 -> cl_dec (cl_enc n ++ r) = ROk (n, r)).
Proof. exact cl_matches_source. Qed.

(** SocketAddress descriptors (all five kinds; hostnames of 0..255 valid characters): round trip, and
    the GENERATED [SocketAddress::len] (rs2v, Gen/WireLens.v) is the descriptor length without the
    type byte, does not overflow its Rust integer type ([_safe]: the debug build does not panic),
    and respects MAX_LEN = 258. *)
Theorem C13_socket_address_roundtrip : forall a r, sa_dom a = true -> sa_dec (sa_enc a ++ r) = ROk (inl a, r).
Proof. exact sa_roundtrip. Qed.

Theorem C13_socket_address_len : forall a, sa_dom a = true ->
  len (sa_enc a) = 1 + socket_address_len (sa_abs a) /\
  socket_address_len_safe (sa_abs a) = true /\
  socket_address_len (sa_abs a) <= 258.
Proof. exact sa_len_correct. Qed.

Example C13_socket_address_example :
  sa_dom (SA_Host (repeat 97 255) 9735) = true /\
  socket_address_len (sa_abs (SA_Host (repeat 97 255) 9735)) = 258 /\
  sa_dec (5 :: 1 :: 32 :: [0; 1]) = RErr "InvalidValue" /\
  sa_dec [6; 1] = ROk (inr 6, [1]) /\
  cl_enc 0xFFFE = [0xFF; 0xFE] /\ cl_enc 0xFFFF = [0xFF; 0xFF; 0; 0; 0; 0; 0; 0; 0; 0] /\
  cl_dec [0xFF; 0xFF; 0xFF; 0xFF; 0xFF; 0xFF; 0xFF; 0xFF; 0; 1] = RErr "InvalidValue".
Proof. repeat split; vm_compute; reflexivity. Qed.

(** Non-vacuity: a concrete channel_ready with its optional TLV, and a concrete update_add_htlc with
    three of its four optional TLVs, are in the domain and encode to the expected bytes. *)
Example C13_domain_inhabited_channel_ready :
  let m := mk_mval [[VB (repeat 7 32)]; [VB (2 :: repeat 9 32)]] [Some [VZ 0x0102030405060708]] [] in
  msg_dom (fun _ => true) s_ChannelReady m = true /\
  msg_enc s_ChannelReady m = repeat 7 32 ++ (2 :: repeat 9 32) ++ [1; 8; 1; 2; 3; 4; 5; 6; 7; 8].
Proof. split; vm_compute; reflexivity. Qed.

Example C13_domain_inhabited_update_add :
  let m := mk_mval [[VB (repeat 1 32)]; [VZ 5]; [VZ 1000]; [VB (repeat 2 32)]; [VZ 700000]; [VB (0 :: (2 :: repeat 3 32) ++ repeat 4 1332)]]
                   [Some [VB (3 :: repeat 5 32)]; None; Some []; Some [VZ 1]] [] in
  msg_dom (fun _ => true) s_UpdateAddHTLC m = true /\
  List.length (msg_enc s_UpdateAddHTLC m) = (32 + 8 + 8 + 32 + 4 + 1366 + (1 + 1 + 33) + (5 + 1) + (5 + 1 + 1))%nat.
Proof. split; vm_compute; reflexivity. Qed.

Example C13_onion_message_example :
  let pkt := 0 :: (2 :: repeat 9 32) ++ repeat 5 4097 ++ repeat 7 32 in
  let m := mk_mval [[VB (3 :: repeat 8 32)]; [VB pkt]] [] [] in
  msg_dom (fun _ => true) s_OnionMessage m = true /\
  List.length (msg_enc s_OnionMessage m) = (33 + 2 + 66 + 4097)%nat /\
  (* a declared packet length one larger than what follows: ShortRead, not a partial message *)
  msg_dec (fun _ => true) s_OnionMessage ((3 :: repeat 8 32) ++ [0; 67] ++ repeat 1 66) = RErr "ShortRead".
Proof. repeat split; vm_compute; reflexivity. Qed.

(** Non-vacuity of the rejection premises: type 4 is unknown and even for channel_ready. *)
Example C13_reject_example :
  tlv_dec (fun _ => true) [mk_entry 1 KOpt (FB (BU 8))] [4; 0] = RErr "UnknownRequiredFeature" /\
  tlv_dec (fun _ => true) [mk_entry 1 KOpt (FB (BU 8))] [3; 1; 9] = ROk [None] /\
  tlv_dec (fun _ => true) [mk_entry 1 KOpt (FB (BU 8))] [0xFD; 0; 1; 0] = RErr "InvalidValue" /\
  tlv_dec (fun _ => true) [mk_entry 1 KOpt (FB (BU 8))] [3; 0; 1; 0] = RErr "InvalidValue" /\
  tlv_dec (fun _ => true) [mk_entry 1 KOpt (FB (BU 8))] [1; 8; 0; 0] = RErr "ShortRead".
Proof. repeat split; vm_compute; reflexivity. Qed.
