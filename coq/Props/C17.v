(** C17 — the network graph holds only authentic, current gossip, whatever the order.
    Only theorem statements closed by [exact]; proofs are in Proofs/C17*.v.  The model
    ([Model/Gossip.v]: [step], [run], the op and message types) is a hand transliteration of
    lightning/src/routing/gossip.rs, tied to the code by differential execution on every run;
    statement-level vocabulary ([wf], [authentic], [upd_guards], [valid_set], [admissible],
    [same_messages], [graph_equiv], …) is in [Model/GossipSpec.v]. *)
From stdpp Require Import gmap.
From Coq Require Import ZArith String.
Require Import LdkV.Gen.GossipConsts LdkV.Model.Gossip LdkV.Model.GossipSpec LdkV.Model.GossipAsync LdkV.Model.GossipPersist LdkV.Proofs.C17.
Require LdkV.Proofs.C17Step LdkV.Proofs.C17Removal LdkV.Proofs.C17Auth LdkV.Proofs.C17Order LdkV.Proofs.C17Async LdkV.Proofs.C17Persist.
Open Scope Z_scope.

(** Whatever operations are applied (gossip from any entry point, valid or not, failures, pruning,
    reloads), node and channel tables stay mutually consistent: every node has a channel, lists
    each of its channels once, and [scid ∈ node.channels ↔ the channel exists and names the node]. *)
Theorem C17_xref_invariant : ∀ cf ops, wf (run cf g_init ops).
Proof. exact wf_all. Qed.

Theorem C17_xref_preserved : ∀ cf g o, wf g → wf (step cf g o).2.
Proof. exact wf_step. Qed.

(** A rejected message never changes the graph. *)
Theorem C17_reject_unchanged : ∀ cf g o e g', step cf g o = (GErr e, g') → g' = g.
Proof. exact C17Step.step_err_unchanged. Qed.

(** After ANY list of operations, every channel, every directional update and every node
    announcement in the graph is backed by a delivered message of that content; when it came in
    through a signed entry point all its signatures verify under the announced keys: the four keys
    of a channel_announcement, the node of the updated direction for a channel_update (as the
    channel stands in the graph), the node itself for a node_announcement. *)
Theorem C17_authentic : ∀ cf ops, authentic cf ops (run cf g_init ops).
Proof. exact C17Auth.run_authentic. Qed.

(** Per channel direction and per node the stored timestamp only ever strictly increases, for
    every operation: after a step the stored information is the same as before, strictly newer,
    or gone (channel removed / direction pruned / channel replaced by a re-validated announcement). *)
Theorem C17_monotone : ∀ cf g o,
  (∀ scid d u u', g_dir g scid d = Some u → g_dir (step cf g o).2 scid d = Some u' →
                  u' = u ∨ ui_ts u < ui_ts u') ∧
  (∀ nid a a', g_nann g nid = Some a → g_nann (step cf g o).2 nid = Some a' →
               a' = a ∨ na_ts a < na_ts a').
Proof. exact monotone. Qed.

(** An update / node announcement with an older or equal timestamp leaves the graph unchanged
    (and is reported as an error unless it was a verify-only call). *)
Theorem C17_stale_update_ignored : ∀ cf g via sg m now ov old,
  g_dir g (cu_scid m) (dir_is_two_to_one m) = Some old → cu_ts m ≤ ui_ts old →
  ∃ r, step cf g (OChanUpd via sg m now ov) = (r, g) ∧ ∀ v, r = GOk v → ov = true.
Proof. exact stale_update_ignored. Qed.

Theorem C17_stale_node_announcement_ignored : ∀ cf g via sg m old,
  g_nann g (nm_nid m) = Some old → nm_ts m ≤ na_ts old →
  ∃ e, step cf g (ONodeAnn via sg m) = (GErr e, g).
Proof. exact stale_node_ann_ignored. Qed.

(** An accepted channel_update implies: channel known, our chain, within the wall-clock window when
    that check is compiled in, htlc_maximum ≤ MAX_VALUE_MSAT and ≤ capacity·1000 when the capacity
    is known, strictly newer than the stored one, signed by the node of its direction; and its
    effect is exactly the replacement of that direction.  Conversely these guards suffice. *)
Theorem C17_update_guards : ∀ cf g via sg m now v g',
  step cf g (OChanUpd via sg m now false) = (GOk v, g') →
  ∃ c, upd_guards cf g via sg m now c ∧ g' = upd_result g sg m c.
Proof. exact update_guards. Qed.

Theorem C17_update_accepted : ∀ cf g via sg m now c,
  upd_guards cf g via sg m now c →
  ∃ v, step cf g (OChanUpd via sg m now false) = (GOk v, upd_result g sg m c).
Proof. exact update_accepted. Qed.

(** [channel_failed_permanent] removes exactly that channel, takes it off the lists of its two
    nodes, deletes a node whose list became empty, leaves every other node and channel untouched,
    records the removal, and keeps the graph well formed. *)
Theorem C17_channel_failed : ∀ cf g scid now c,
  wf g → g_chans g !! scid = Some c →
  let g' := (step cf g (OFailChan scid true now)).2 in
  g_chans g' = delete scid (g_chans g) ∧
  g_rmc g' = <[scid := now]> (g_rmc g) ∧ g_rmn g' = g_rmn g ∧
  (∀ nid, g_nodes g' !! nid =
          if decide (nid = c_one c ∨ nid = c_two c) then node_without (g_nodes g !! nid) scid
          else g_nodes g !! nid) ∧
  wf g'.
Proof. exact C17Removal.fail_chan_known. Qed.

Theorem C17_channel_failed_unknown : ∀ cf g scid now,
  g_chans g !! scid = None → (step cf g (OFailChan scid true now)).2 = g.
Proof. exact C17Removal.fail_chan_unknown. Qed.

(** [node_failed_permanent] removes the node and exactly the channels it listed. *)
Theorem C17_node_failed : ∀ cf g nid now n,
  wf g → g_nodes g !! nid = Some n →
  let g' := (step cf g (OFailNode nid true now)).2 in
  g_nodes g' !! nid = None ∧
  (∀ scid, g_chans g' !! scid = if decide (scid ∈ n_chans n) then None else g_chans g !! scid) ∧
  (∀ scid c, g_chans g' !! scid = Some c → c_one c ≠ nid ∧ c_two c ≠ nid) ∧
  g_rmn g' = <[nid := now]> (g_rmn g) ∧
  wf g'.
Proof. exact C17Removal.fail_node_known. Qed.

(** While a removal is tracked, re-announcing the channel (or a channel of the removed node) is
    rejected and changes nothing. *)
Theorem C17_removed_not_reannounced : ∀ cf g via sg a u now,
  is_Some (g_rmc g !! ca_scid a) ∨ is_Some (g_rmn g !! ca_n1 a) ∨ is_Some (g_rmn g !! ca_n2 a) →
  ∃ e, step cf g (OChanAnn via sg a u now) = (GErr e, g).
Proof. exact C17Removal.tombstone_blocks. Qed.

(** Pruning at [now]: every channel becomes [prune_chan (now − 14 d)] of itself (directions older
    than the limit dropped; the channel removed iff a direction is then missing and its
    announcement is older than the limit — [C17_prune_chan]); the surviving nodes are exactly the
    ends of surviving channels and keep their announcements; removal tracking entries older than
    7 d are dropped, pruned channels are tracked from [now], everything else is kept. *)
Theorem C17_prune : ∀ g now,
  wf g → prune_active now →
  let g' := prune g now in
  let mt := now - STALE_CHANNEL_UPDATE_AGE_LIMIT_SECS in
  (∀ scid, g_chans g' !! scid = g_chans g !! scid ≫= prune_chan mt) ∧
  wf g' ∧
  (∀ nid, is_Some (g_nodes g' !! nid) ↔ ∃ scid, ends (g_chans g') scid nid) ∧
  (∀ nid n', g_nodes g' !! nid = Some n' →
     ∃ n, g_nodes g !! nid = Some n ∧ n_ann n' = n_ann n) ∧
  (∀ scid t, g_rmc g' !! scid = Some t ↔
     Z.max 0 (now - t) < REMOVED_ENTRIES_TRACKING_AGE_LIMIT_SECS ∧
     ((∃ c, g_chans g !! scid = Some c ∧ prune_chan mt c = None ∧ t = now) ∨
      (¬ (∃ c, g_chans g !! scid = Some c ∧ prune_chan mt c = None) ∧ g_rmc g !! scid = Some t))) ∧
  (∀ nid t, g_rmn g' !! nid = Some t ↔
     g_rmn g !! nid = Some t ∧ Z.max 0 (now - t) < REMOVED_ENTRIES_TRACKING_AGE_LIMIT_SECS).
Proof. exact prune_effect. Qed.

Theorem C17_prune_chan : ∀ mt c,
  match prune_chan mt c with
  | Some c' =>
      chan_content c' = chan_content (drop_stale mt c) ∧ c_recv c' = c_recv c ∧
      (∀ d u, chan_dir c' d = Some u ↔ chan_dir c d = Some u ∧ mt ≤ ui_ts u) ∧
      ((is_Some (c_12 c') ∧ is_Some (c_21 c')) ∨ mt ≤ c_recv c)
  | None =>
      c_recv c < mt ∧ ∃ d, ∀ u, chan_dir c d = Some u → ui_ts u < mt
  end.
Proof. exact prune_chan_spec. Qed.

Theorem C17_prune_outside_range : ∀ g now, ¬ prune_active now → prune g now = g.
Proof. exact C17Removal.prune_inactive. Qed.

(** THE ORDER THEOREM.  Two delivery lists of the same valid message set — any duplication, any
    order that keeps each channel_announcement before the updates of that channel and before the
    node announcements of its nodes, distinct timestamps per direction / node among distinct
    messages — build the same graph: same channels with the same directional data, same nodes
    with the same announcements and the same channel sets.  (Receipt time and the order inside
    [NodeInfo.channels] are artefacts of the delivery and are not compared: see [graph_equiv].) *)
Theorem C17_order_independent : ∀ cf L1 L2,
  valid_set cf L1 → valid_set cf L2 → admissible [] L1 → admissible [] L2 → same_messages L1 L2 →
  graph_equiv (run cf g_init L1) (run cf g_init L2).
Proof. exact C17Order.order_independent. Qed.

(** ** The asynchronous UTXO-lookup path and rapid gossip sync
    [Model/GossipAsync.v] puts the pending-checks buffer of routing/utxo.rs ([PAnnAsync]: an
    announcement whose lookup is in flight; channel_updates and node_announcements for it are held,
    the newest per direction / node; [PResolve]; [PPoll]: [check_resolved_futures], replaying the
    held messages through the entry point they came in by, signed or unsigned) and the processing
    of rapid-gossip-sync snapshots ([PRgs]) on top of the synchronous model. *)

(** The graph is only ever changed by [step]s of the synchronous model: what a session of the
    layered model reaches is the run of the ops it pushed through, each of which is a delivered
    message with the signature verdict it was delivered with (or an unsigned one synthesised from a
    delivered snapshot); so the graph is well formed and authentic with respect to them. *)
Theorem C17_async_refines : ∀ cf pops,
  let g := ps_g (prun cf p_init pops) in
  let ops := pemitted cf p_init pops in
  g = run cf g_init ops ∧ Forall (delivered pops) ops ∧ wf g ∧ authentic cf ops g.
Proof. exact C17Async.async_refines. Qed.

(** [C17_authentic] extended to held-and-replayed messages: after ANY session (lookups resolved in
    any order with any result, messages before / while / after a lookup is pending, snapshots),
    every channel, direction and node announcement in the graph is a delivered message, and if it
    was delivered through a signed entry point its signatures verify under the announced keys —
    in particular a held SIGNED channel_update is stored only if its signature verifies under the
    node of its direction of the channel as resolved. *)
Theorem C17_authentic_async : ∀ cf pops,
  let g := ps_g (prun cf p_init pops) in
  (∀ scid c, g_chans g !! scid = Some c →
     ((∃ sg a u, delivered pops (OChanAnn false sg a u 0) ∧ ca_scid a = scid ∧
         c_one c = ca_n1 a ∧ c_two c = ca_n2 a ∧ c_features c = ca_features a ∧
         utxo_value u = inr (c_cap c) ∧ ca_chain a = cfg_chain cf ∧
         (∀ s, sg = Some s → ann_authentic cf a s)) ∨
      (∃ ts, delivered pops (OPartialAnn scid (c_cap c) ts (c_features c) (c_one c) (c_two c)))) ∧
     ∀ d ui, chan_dir c d = Some ui →
       ∃ sg m, delivered pops (OChanUpd false sg m 0 false) ∧ cu_scid m = scid ∧
         dir_is_two_to_one m = d ∧ ui = upd_info_of m (is_some_b sg) ∧ cu_chain m = cfg_chain cf ∧
         (∀ s, sg = Some s → s = Some (dir_node c d) ∧ pk_ok cf (dir_node c d) = true)) ∧
  (∀ nid n a, g_nodes g !! nid = Some n → n_ann n = Some a →
     ∃ sg m, delivered pops (ONodeAnn false sg m) ∧ nm_nid m = nid ∧ na_ts a = nm_ts m ∧
       na_content a = nm_content m ∧ (∀ b, sg = Some b → b = true ∧ pk_ok cf nid = true)).
Proof. exact C17Async.async_authentic. Qed.

(** Rapid gossip sync: the update synthesised for an INCREMENTAL entry is the stored directional
    info with exactly the flagged fields replaced (timestamp: the snapshot's, backdated a week) … *)
Theorem C17_rgs_incremental_preserves_unmentioned : ∀ g sn u old,
  rgs_incremental u = true →
  g_dir g (ru_scid u) (Z.testbit (ru_flags u) 0) = Some old →
  ∃ m, rgs_synth g sn u = Some m ∧
    cu_scid m = ru_scid u ∧ dir_is_two_to_one m = Z.testbit (ru_flags u) 0 ∧
    cu_ts m = backdated sn ∧
    cu_cltv m = opt_or (ru_cltv u) (ui_cltv old) ∧
    cu_hmin m = opt_or (ru_hmin u) (ui_hmin old) ∧
    cu_hmax m = opt_or (ru_hmax u) (ui_hmax old) ∧
    cu_base m = opt_or (ru_base u) (ui_base old) ∧
    cu_prop m = opt_or (ru_prop u) (ui_prop old).
Proof. exact C17Async.rgs_incremental_preserves_unmentioned. Qed.

(** … and when the graph accepts it, that is what the direction holds afterwards. *)
Theorem C17_rgs_incremental_effect : ∀ cf g sn u old m now v g',
  rgs_incremental u = true →
  g_dir g (ru_scid u) (Z.testbit (ru_flags u) 0) = Some old →
  rgs_synth g sn u = Some m →
  step cf g (OChanUpd false None m now false) = (GOk v, g') →
  ∃ new, g_dir g' (ru_scid u) (Z.testbit (ru_flags u) 0) = Some new ∧
    ui_ts new = backdated sn ∧
    ui_cltv new = opt_or (ru_cltv u) (ui_cltv old) ∧
    ui_hmin new = opt_or (ru_hmin u) (ui_hmin old) ∧
    ui_hmax new = opt_or (ru_hmax u) (ui_hmax old) ∧
    ui_base new = opt_or (ru_base u) (ui_base old) ∧
    ui_prop new = opt_or (ru_prop u) (ui_prop old).
Proof. exact C17Async.rgs_incremental_effect. Qed.

(** ** Persistence ([NetworkGraph::write] / read), at schema level ([Model/GossipPersist.v]: per
    channel and per node the record's fields in order, keyed by scid / node id; the removal tracking
    is not written).  Reading back what was written gives the same channels and nodes with empty
    removal tracking — the model's [OReload] step, which the check compares with a real
    write + read after every reload op. *)
Theorem C17_persist : ∀ g, read (write g) = Some (Graph (g_chans g) (g_nodes g) ∅ ∅).
Proof. exact C17Persist.read_write. Qed.

Theorem C17_persist_is_reload : ∀ cf g, read (write g) = Some (step cf g OReload).2.
Proof. exact C17Persist.read_write_is_reload. Qed.

(** What is read back is well formed / authentic when the written graph was, holds the same
    directional information (so "newer only" and staleness carry over unchanged), and is a fixed
    point of write + read. *)
Theorem C17_persist_preserves : ∀ cf ops g g',
  read (write g) = Some g' →
  g_chans g' = g_chans g ∧ g_nodes g' = g_nodes g ∧ g_rmc g' = ∅ ∧ g_rmn g' = ∅ ∧
  (wf g → wf g') ∧ (authentic cf ops g → authentic cf ops g') ∧
  (∀ scid d, g_dir g' scid d = g_dir g scid d) ∧
  read (write g') = Some g'.
Proof. exact C17Persist.read_write_preserves. Qed.

(** ** Non-vacuity (the concrete lists and the proofs that they satisfy the hypotheses are in
    [Proofs/C17Examples.v]) *)
Require Import LdkV.Proofs.C17Examples.
Module Ex.
  Import Examples.
  (** the hypotheses of the order theorem are satisfiable by two genuinely different deliveries… *)
  Example order_example : graph_equiv (run cf g_init L1) (run cf g_init L2).
  Proof.
    exact (C17_order_independent cf L1 L2 (vs L1 (or_introl eq_refl)) (vs L2 (or_intror eq_refl)) adm1 adm2 same12).
  Qed.
  (** …which build a non-trivial graph: one channel with both directions at their latest
      timestamps (600, 550), two nodes, the latest announcement (80) of node 3. *)
  Example order_example_graph :
    dump (run cf g_init L2) =
    ([[42; 1; 3; 7; 5000; 100; 2000; 1; 600; 1; 40; 1; 1000000; 10; 20; 102;
       1; 550; 1; 40; 1; 2000000; 10; 20; 103]],
     [[3; 1; 80; 5; 105; 42]; [7; 0; 42]], [], []).
  Proof. by vm_compute. Qed.

  (** a forged update (signature under the wrong key), an update for the wrong chain, one above the
      capacity and a stale one are rejected; a fresh authentic one is accepted *)
  Example reject_examples :
    let g := run cf g_init L1 in
    (step cf g (OChanUpd true (Some (Some 7)) (u1 700 1) 0 false)).1 = GErr EUpdBadSig ∧
    (step cf g (OChanUpd true (Some None) (u1 700 1) 0 false)).1 = GErr EUpdBadSig ∧
    (step cf g (OChanUpd true (Some (Some 3)) (ChanUpdMsg 1 42 700 1 0 40 1 1000000 10 20 0 1) 0 false)).1 = GErr EUpdChain ∧
    (step cf g (OChanUpd true (Some (Some 3)) (ChanUpdMsg 0 42 700 1 0 40 1 5000001 10 20 0 1) 0 false)).1 = GErr ECapacity ∧
    (step cf g (OChanUpd true (Some (Some 3)) (u1 600 1) 0 false)).1 = GErr EUpdSameTs ∧
    (step cf g (OChanUpd true (Some (Some 3)) (u1 599 1) 0 false)).1 = GErr EUpdOlder ∧
    (step cf g (OChanUpd true (Some (Some 3)) (u1 601 1) 0 false)).1 = GOk (VNodes (Some (3, 7))) ∧
    (step cf g (OChanAnn true (Some (AnnSigs true true false true)) (ChanAnnMsg 1 0 43 3 7 11 12 0 1) UNoLookup 0)).1 = GErr EAnnBadSig.
  Proof. by vm_compute. Qed.

  (** failure and pruning on a reachable graph *)
  Example removal_example :
    let g := run cf g_init L1 in
    dump (step cf g (OFailChan 42 true 9)).2 = ([], [], [(42, 9)], []) ∧
    (* at now = 14 d + 560 the direction with timestamp 550 is stale; the channel stays because its
       announcement was received at 1000 > 560 … *)
    (dump (prune g (1209600 + 560))).1.1.1 =
      [[42; 1; 3; 7; 5000; 100; 1000; 1; 600; 1; 40; 1; 1000000; 10; 20; 102; 0]] ∧
    (* … and is removed, with its nodes, once the announcement is older than the limit too *)
    dump (prune g (1209600 + 1001)) = ([], [], [(42, 1209600 + 1001)], []).
  Proof. by vm_compute. Qed.
End Ex.

Require Import LdkV.Proofs.C17AsyncExamples.
Module ExAsync.
  Import Examples AsyncExamples.
  (** held messages are replayed through the entry point they came in by: the channel_update for
      direction one signed by a stranger does NOT make it into the graph when its channel's lookup
      resolves, the authentic one for direction two and the node_announcement do, and the three
      accepted messages (100, 104, 103) are queued for relay *)
  Example held_replayed :
    dump (ps_g (prun cf p_init held)) =
      ([[42; 1; 3; 7; 5000; 100; 1001; 0; 1; 550; 1; 40; 1; 2000000; 10; 20; 103]],
       [[3; 1; 70; 5; 104; 42]; [7; 0; 42]], [], []) ∧
    (pstep cf (prun cf p_init (removelast held)) (PPoll 1001)).1.1 = PBroadcast [100; 104; 103].
  Proof. by vm_compute. Qed.
  (** nothing of a failed lookup reaches the graph *)
  Example failed_lookup_leaves_nothing : dump (ps_g (prun cf p_init failed)) = ([], [], [], []).
  Proof. by vm_compute. Qed.
  (** the hypotheses of the incremental-update theorems hold on a reachable graph, and an entry
      flagging only the fee base changes the fee base (10 -> 77) and the timestamp, nothing else *)
  Example rgs_incremental_example :
    let g := ps_g (prun cf p_init held) in
    rgs_incremental inc = true ∧
    g_dir g (ru_scid inc) (Z.testbit (ru_flags inc) 0) = Some (upd_info_of (u2 550 103) true) ∧
    dump (ps_g (prun cf p_init (held ++ [PRgs sn1 None 1002]))) =
      ([[42; 1; 3; 7; 5000; 100; 1001; 0; 1; 1395200; 1; 40; 1; 2000000; 77; 20; -1]],
       [[3; 1; 70; 5; 104; 42]; [7; 0; 42]], [], []).
  Proof. by vm_compute. Qed.
End ExAsync.

Module ExPersist.
  Import Examples.
  (** a graph with a channel, both directions, a node announcement and a tracked removal: 1 channel
      entry of 28 fields and 2 node entries are written, and what is read back is the same content
      with the removal tracking gone *)
  Example persist_example :
    let g := Graph (g_chans (run cf g_init L1)) (g_nodes (run cf g_init L1)) {[5 := 9]} ∅ in
    (List.length <$> (snd <$> pz_chans (write g)), List.length (pz_nodes (write g))) = ([28%nat], 2%nat) ∧
    dump <$> read (write g) = Some (dump (run cf g_init L1)) ∧ (dump g).1.2 = [(5, 9)].
  Proof. by vm_compute. Qed.
End ExPersist.
