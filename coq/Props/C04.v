(** C04 — Inbound payments are claimable only if complete and authentic; all-or-nothing.
    Statements only; proofs in Proofs/C04.v (payment secrets over abstract primitives), Proofs/C04c.v
    (the executable instance) and Proofs/C04b.v (receiver state machine). Models:
    Model/InboundSecret.v, Model/InboundSecretExec.v, Model/Inbound.v. *)
From LdkV Require Import Prim.U64 Prim.Rs2vLib Crypto.Bytes Crypto.Sha256 Gen.Consts Gen.ConstsC04 Gen.InboundChecks
  Model.InboundSecret Model.InboundSecretExec Model.Inbound Proofs.C04 Proofs.C04c Proofs.C04b Proofs.C04d.
Open Scope Z_scope.

(** * payment secrets *)

(** [construct_info_bytes] followed by the unpacking half of [verify] is the identity on method,
    amount, min_final_cltv_expiry_delta and expiry, for every argument in range ... *)
Theorem C04_info_roundtrip : forall min_value method delta now cltv info,
  info_args_ok min_value method delta now cltv ->
  info_bytes min_value method delta now cltv = Some info ->
  List.length info = 16%nat /\
  method_of info = method /\
  amt_of info = match min_value with Some a => a | None => 0 end /\
  (match min_value with Some a => a <= MAX_VALUE_MSAT | None => True end) /\
  (forall c, cltv = Some c ->
     info_word1 info / 2 ^ 48 = c /\ info_word1 info mod 2 ^ 48 = absolute_expiry now delta) /\
  (cltv = None -> info_word1 info = absolute_expiry now delta).
Proof. exact info_roundtrip. Qed.

(** ... and it returns Err exactly outside those ranges. *)
Theorem C04_info_err_iff : forall min_value method delta now cltv,
  info_bytes min_value method delta now cltv = None <->
  (exists a, min_value = Some a /\ (MAX_VALUE_MSAT < a \/ 2 ^ 61 - 1 < a)) \/
  (exists c, cltv = Some c /\ 2 ^ 48 - 1 < absolute_expiry now delta).
Proof. exact info_bytes_none_iff. Qed.

(** Completeness, for ANY primitives such that the keystream cipher is an involution and the MAC
    has 32 bytes: [verify] accepts what [create] produced, for every total >= the minimum and every
    time <= the expiry, and returns the preimage and the committed CLTV delta. *)
Theorem C04_verify_complete : forall P : prims,
  (forall k iv d, p_crypt P k iv (p_crypt P k iv d) = d) ->
  (forall k m, List.length (p_hmac P k m) = 32%nat) ->
  forall K min_value delta rand now cltv hash secret info total now',
  info_args_ok min_value (match cltv with Some _ => M_LdkPaymentHashCustomFinalCltv | None => M_LdkPaymentHash end) delta now cltv ->
  (32 <= List.length rand)%nat ->
  info_bytes min_value (match cltv with Some _ => M_LdkPaymentHashCustomFinalCltv | None => M_LdkPaymentHash end)
             delta now cltv = Some info ->
  create P K min_value delta rand now cltv = Some (hash, secret) ->
  match min_value with Some a => a | None => 0 end <= total ->
  now' <= absolute_expiry now delta ->
  verify P K hash secret total now' = Some (Some (create_preimage P K info rand), cltv) /\
  hash = p_hash P (create_preimage P K info rand).
Proof. exact verify_create_ok. Qed.

Theorem C04_verify_complete_user_hash : forall P : prims,
  (forall k iv d, p_crypt P k iv (p_crypt P k iv d) = d) ->
  (forall k m, List.length (p_hmac P k m) = 32%nat) ->
  forall K min_value hash delta now cltv secret total now',
  info_args_ok min_value (match cltv with Some _ => M_UserPaymentHashCustomFinalCltv | None => M_UserPaymentHash end) delta now cltv ->
  create_from_hash P K min_value hash delta now cltv = Some secret ->
  match min_value with Some a => a | None => 0 end <= total ->
  now' <= absolute_expiry now delta ->
  verify P K hash secret total now' = Some (None, cltv).
Proof. exact verify_create_from_hash_ok. Qed.

(** The same for the executable HMAC-SHA256 / ChaCha20 / SHA-256 of Crypto/ (no hypothesis). *)
Theorem C04_verify_complete_exec : forall K min_value delta rand now cltv hash secret info total now',
  info_args_ok min_value (match cltv with Some _ => M_LdkPaymentHashCustomFinalCltv | None => M_LdkPaymentHash end) delta now cltv ->
  (32 <= List.length rand)%nat ->
  info_bytes min_value (match cltv with Some _ => M_LdkPaymentHashCustomFinalCltv | None => M_LdkPaymentHash end)
             delta now cltv = Some info ->
  create P_exec K min_value delta rand now cltv = Some (hash, secret) ->
  match min_value with Some a => a | None => 0 end <= total ->
  now' <= absolute_expiry now delta ->
  verify P_exec K hash secret total now' = Some (Some (create_preimage P_exec K info rand), cltv) /\
  hash = sha256 (create_preimage P_exec K info rand).
Proof. exact verify_create_ok_exec. Qed.

(** Soundness, for ANY primitives: whatever [verify] accepts carries the MAC of its (decrypted) info
    under the key of the method the info names, pays at least the committed minimum and is not
    expired; for LDK-generated hashes the returned preimage hashes to the payment hash.
    (Unforgeability itself is the HMAC assumption.) *)
Theorem C04_verify_sound : forall (P : prims) K hash secret total now r,
  verify P K hash secret total now = Some r ->
  let iv := firstn IV_LEN secret in
  let info := p_crypt P (k_info K) iv (skipn IV_LEN secret) in
  let m := method_of info in
  amt_of info <= total /\ now <= expiry_of info /\ snd r = cltv_of info /\
  ((m = M_UserPaymentHash \/ m = M_UserPaymentHashCustomFinalCltv) /\ fst r = None /\
     iv = firstn IV_LEN (p_hmac P (k_user K) (info ++ hash))
   \/
   (m = M_LdkPaymentHash \/ m = M_LdkPaymentHashCustomFinalCltv) /\
     fst r = Some (p_hmac P (k_ldk K) (iv ++ info)) /\ hash = p_hash P (p_hmac P (k_ldk K) (iv ++ info))
   \/
   m = M_SpontaneousPayment /\ fst r = None /\ iv = firstn IV_LEN (p_hmac P (k_spont K) info)).
Proof. exact verify_sound. Qed.

Theorem C04_verify_rejects_unknown_method : forall (P : prims) K hash secret total now,
  let info := p_crypt P (k_info K) (firstn IV_LEN secret) (skipn IV_LEN secret) in
  5 <= method_of info -> verify P K hash secret total now = None.
Proof. exact verify_unknown_method. Qed.

(** * receiver state machine (any state, any operation) *)

(** PaymentClaimable is emitted only by the arrival of a part that passed every per-HTLC check,
    completing a set that was incomplete before: sum of sender-intended values >= the total the
    parts commit to (and below MAX_VALUE_MSAT), onion fields agreeing with the stored ones, same
    purpose; the amount is the sum of the parts' values, the deadline the least expiry minus
    HTLC_FAIL_BACK_BUFFER, and every part records that amount. *)
Theorem C04_claimable_only_if_complete : forall s o hash A d,
  In (OClaimable hash A d) (snd (step s o)) ->
  exists pid onion_cltv cltv value intended fl purpose min_cltv sk up e',
    o = Recv hash pid onion_cltv cltv value intended fl purpose true min_cltv sk up /\
    onion_cltv <= cltv /\ height s + HTLC_FAIL_BACK_BUFFER + 1 < cltv /\
    final_hop_underpaid up intended value sk = false /\
    (forall dd, min_cltv = Some dd -> height s + dd <= cltv) /\
    sum_intended (match get hash (claimable s) with Some e => py_parts e | None => [] end)
      < f_total (py_fields e') /\
    get hash (claimable (fst (step s o))) = Some e' /\
    f_total (py_fields e') <= sum_intended (py_parts e') /\
    sum_intended (py_parts e') < MAX_VALUE_MSAT /\
    A = sum_value (py_parts e') /\
    d = min_cltv_of (py_parts e') cltv - HTLC_FAIL_BACK_BUFFER /\
    (forall p, In p (py_parts e') -> pt_tvr p = Some A) /\
    check_merge (py_fields e') fl = true /\ py_purpose e' = purpose /\
    (exists p, In p (py_parts e') /\ pt_id p = pid /\ pt_cltv p = cltv /\ pt_value p = value).
Proof. exact claimable_only_if_complete. Qed.

(** A part failing any per-HTLC check (expiry below the onion's, inside the claim buffer, under-paid,
    not authenticated by [verify], below the committed min_final_cltv_expiry_delta) is failed back
    and the state does not change. *)
Theorem C04_rejects_are_failed_back : forall s hash pid onion_cltv cltv value intended fl purpose auth min_cltv sk up,
  cltv < onion_cltv \/ cltv <= height s + HTLC_FAIL_BACK_BUFFER + 1 \/
  final_hop_underpaid up intended value sk = true \/ auth = false \/
  (exists d, min_cltv = Some d /\ cltv < height s + d) ->
  exists r, step s (Recv hash pid onion_cltv cltv value intended fl purpose auth min_cltv sk up) = (s, [OFailPart pid r]).
Proof. exact recv_reject. Qed.

(** An incomplete set that reaches MPP_TIMEOUT_TICKS is failed back entirely and forgotten. *)
Theorem C04_incomplete_sets_time_out : forall hash e,
  py_parts e <> [] ->
  sum_intended (py_parts e) < f_total (py_fields e) ->
  (exists p, In p (py_parts e) /\ MPP_TIMEOUT_TICKS <= pt_ticks p + 1) ->
  tick_payment (hash, e) =
  (None, map (fun p => OFailPart (pt_id p) F_MPPTimeout) (map tick_part (py_parts e))).
Proof. exact tick_timeout. Qed.

(** The claim window: after PaymentClaimable{A, d}, for EVERY sequence of timer ticks, blocks at
    heights strictly below d, further HTLC arrivals (any hash) and claims / fail-backs of other
    payments, the payment is still held with the same parts, and claim_funds (with known custom
    TLVs, or when there is no even custom TLV) reports PaymentClaimed for A and releases the
    preimage on exactly those parts. *)
Theorem C04_claim_window : forall s0 o0 hash A d ops known,
  In (OClaimable hash A d) (snd (step s0 o0)) ->
  forallb (quiet_for hash d) ops = true ->
  let s1 := fst (step s0 o0) in
  exists e e',
    get hash (claimable s1) = Some e /\
    get hash (claimable (fst (run s1 ops))) = Some e' /\ same_core e e' /\
    A = sum_value (py_parts e) /\
    (known = true \/ f_even (py_fields e) = [] ->
     snd (step (fst (run s1 ops)) (Claim hash known)) =
       OClaimed hash A (map pt_id (py_parts e)) :: map (fun p => OFulfill (pt_id p)) (py_parts e)).
Proof. exact claim_window. Qed.

(** All or nothing: one claim_funds either releases the preimage on every part it removes from the
    map, reporting PaymentClaimed for their sum, or on none. *)
Theorem C04_all_or_nothing : forall s hash known,
  let outs := snd (step s (Claim hash known)) in
  (forall pid, ~ In (OFulfill pid) outs) \/
  (exists e, get hash (claimable s) = Some e /\
             outs = OClaimed hash (sum_value (py_parts e)) (map pt_id (py_parts e))
                    :: map (fun p => OFulfill (pt_id p)) (py_parts e)).
Proof. exact all_or_nothing. Qed.

(** A claim never drops parts, at any height (H2 of DESIGN.md section 11): when every part of the
    set records a received total (PaymentClaimable was generated for it), claim_funds either
    releases the preimage on every part or fails every part back. *)
Theorem C04_late_claim_fails_back : forall s hash known e,
  get hash (claimable s) = Some e -> py_parts e <> [] ->
  (forall p, In p (py_parts e) -> pt_tvr p <> None) ->
  let outs := snd (step s (Claim hash known)) in
  (forall p, In p (py_parts e) -> In (OFulfill (pt_id p)) outs) \/
  (forall p, In p (py_parts e) -> exists r, In (OFailPart (pt_id p) r) outs).
Proof. exact claim_never_drops. Qed.

(** What the regenerated final-hop amount check (onion_payment.rs) says: without
    accept_underpaying_htlcs a part must carry at least the sender-intended amount; with it, at least
    that amount less the fee the previous hop declares to have skimmed. *)
Theorem C04_underpaid_spec : forall up intended value sk,
  final_hop_underpaid up intended value sk = false <->
  (up = false /\ intended <= value) \/ (up = true /\ intended <= sat_add 64 value (unwrap_or sk 0)).
Proof. exact underpaid_spec. Qed.

(** A set for which PaymentClaimable was emitted is never failed by the timer: after PaymentClaimable
    {A, d}, for EVERY sequence of ticks (any number), blocks below d, further HTLCs and claims /
    fail-backs of other payments, every announced part is still held, and the next tick emits nothing
    for the payment and keeps all its parts — whatever the parts' values are relative to their
    sender-intended amounts (skimmed fees, overpayment): completeness at a tick is judged on the same
    sender-intended sums as completeness on arrival. *)
Theorem C04_claimable_not_timed_out : forall s0 o0 hash A d ops,
  In (OClaimable hash A d) (snd (step s0 o0)) ->
  forallb (quiet_for hash d) ops = true ->
  let s1 := fst (step s0 o0) in
  exists e e',
    get hash (claimable s1) = Some e /\
    get hash (claimable (fst (run s1 ops))) = Some e' /\ same_core e e' /\
    snd (tick_payment (hash, e')) = [] /\
    exists e'', fst (tick_payment (hash, e')) = Some (hash, e'') /\ same_core e' e''.
Proof. exact claimable_not_timed_out. Qed.

(** PaymentClaimed reports the announced amount or nothing is claimed: after PaymentClaimable {A, d}
    from a state with one entry per payment hash, for EVERY sequence of ticks, blocks at ANY height
    (parts may be failed back at their own deadlines, the rest may time out) and operations on other
    payments, a claim_funds that reports PaymentClaimed reports amount A = the sum of the values of
    the parts announced, releases the preimage on every part still held, and — if the announced parts
    have positive value — those are ALL the announced parts; if an announced part is gone, the claim
    emits nothing but fail-backs. *)
Theorem C04_claim_amount_is_announced : forall s0 o0 hash A d ops known,
  sorted (claimable s0) ->
  In (OClaimable hash A d) (snd (step s0 o0)) ->
  forallb (calm_for hash) ops = true ->
  let s1 := fst (step s0 o0) in
  let outs := snd (step (fst (run s1 ops)) (Claim hash known)) in
  exists e,
    get hash (claimable s1) = Some e /\ A = sum_value (py_parts e) /\
    (forall A' pids, In (OClaimed hash A' pids) outs ->
       A' = A /\
       exists e', get hash (claimable (fst (run s1 ops))) = Some e' /\
                  sum_value (py_parts e') = A /\ pids = map pt_id (py_parts e') /\
                  subseq (map core (py_parts e')) (map core (py_parts e)) /\
                  (forall p, In p (py_parts e') -> In (OFulfill (pt_id p)) outs) /\
                  ((forall p, In p (py_parts e) -> 0 < pt_value p) ->
                   map core (py_parts e') = map core (py_parts e))) /\
    (forall e', get hash (claimable (fst (run s1 ops))) = Some e' ->
       (forall p, In p (py_parts e) -> 0 < pt_value p) ->
       map core (py_parts e') <> map core (py_parts e) ->
       forall o, In o outs -> exists pid r, o = OFailPart pid r).
Proof. exact claim_amount_is_announced. Qed.

(** What acceptance of a part implies, with the thresholds regenerated from the source (the height
    passed at the call site is the best block's; the final-hop check is
    [cltv_expiry <= height + HTLC_FAIL_BACK_BUFFER + 1 => reject]; the registered
    min_final_cltv_expiry_delta check is [cltv_expiry < height + delta => reject]): a part that is not
    failed back at once is authentic, was not underpaid, and leaves a claim window: its own fail-back
    height cltv - HTLC_FAIL_BACK_BUFFER is at least two blocks above the current height, and its
    expiry respects the registered minimum final CLTV delta. *)
Theorem C04_accepted_leaves_claim_window : forall s hash pid onion_cltv cltv value intended fl purpose auth min_cltv sk up,
  (forall r, ~ In (OFailPart pid r) (snd (step s (Recv hash pid onion_cltv cltv value intended fl purpose auth min_cltv sk up)))) ->
  auth = true /\ onion_cltv <= cltv /\
  height s + HTLC_FAIL_BACK_BUFFER + 2 <= cltv /\
  (forall d, min_cltv = Some d -> height s + d <= cltv) /\
  final_hop_underpaid up intended value sk = false.
Proof. exact recv_accepted_window. Qed.

(** The numeric half of inbound_payment::verify (regenerated: calculate_absolute_expiry and the two
    comparisons): accepted iff the committed total reaches the registered minimum and the time passed
    at the call site is at most creation time + invoice_expiry_delta_secs + 7200 - ONE grace period. *)
Theorem C04_verify_numeric_spec : forall total min_amt t0 delta now,
  verify_numeric_ok total min_amt t0 delta now = true <-> min_amt <= total /\ now <= t0 + delta + 7200.
Proof. exact verify_numeric_ok_spec. Qed.

(** ... and the hand model of part A uses exactly these. *)
Theorem C04_secret_model_pins :
  (forall now delta, LdkV.Model.InboundSecret.absolute_expiry now delta = calculate_absolute_expiry now delta) /\
  (forall total a, (total <? a) = verify_amount_too_low total a) /\
  (forall e now, (e <? now) = verify_expired e now).
Proof. exact secret_model_pins. Qed.

(** A keysend HTLC (its payment secret, if any, is not looked at) makes a payment claimable only if its
    preimage hashes to the payment hash; any other HTLC only if verify accepted its payment secret. *)
Theorem C04_keysend_claimable_needs_matching_preimage :
  forall s hash A d pid onion_cltv cltv value intended fl purpose ks v min_cltv sk up,
  In (OClaimable hash A d)
     (snd (step s (Recv hash pid onion_cltv cltv value intended fl purpose (recv_auth ks v) min_cltv sk up))) ->
  match ks with Some hash_matches => hash_matches = true | None => v = true end.
Proof. exact keysend_claimable_needs_matching_preimage. Qed.

(** ... and every state reached from the empty one has one entry per payment hash. *)
Theorem C04_reachable_sorted : forall h ops, sorted (claimable (fst (run (init h) ops))).
Proof. exact reachable_sorted. Qed.

(** the history of H2: part A fails at the deadline, the late claim fails part B back *)
Example C04_ex_late_claim :
  snd (run (init 100) h2_ops) =
    [ []; [OClaimable 1 3000 (200 - HTLC_FAIL_BACK_BUFFER)]; [OFailPart 11 F_PaymentClaimBuffer];
      [OFailPart 12 F_IncorrectPaymentDetails] ] /\
  claimable (fst (run (init 100) h2_ops)) = [].
Proof. exact late_claim_fails_back_example. Qed.

(** * non-vacuity *)
Example C04_ex_mpp_claim :
  snd (run (init 100)
         [ Recv 1 11 200 200 1000 1000 h2_fields 9 true None None false;
           Recv 1 12 230 230 2000 2000 h2_fields 9 true None None false;
           Tick; Block 150; Recv 1 13 230 230 500 500 h2_fields 9 true None None false;
           Claim 1 false ]) =
  [ []; [OClaimable 1 3000 (200 - HTLC_FAIL_BACK_BUFFER)]; []; []; [OFailPart 13 F_IncorrectPaymentDetails];
    [OClaimed 1 3000 [11; 12]; OFulfill 11; OFulfill 12] ].
Proof. vm_compute. reflexivity. Qed.

(** skimmed parts: both parts arrive with 100 msat less than the sender intended, on channels that
    accept underpaying HTLCs; the set is complete on the sender-intended amounts (3000), PaymentClaimable
    announces what was received (2800), five ticks later nothing has happened, the claim reports 2800.
    The same part on a channel that does not accept underpaying HTLCs is failed back at once. *)
Example C04_ex_skimmed :
  snd (run (init 100)
         [ Recv 1 11 200 200 900 1000 h2_fields 9 true None (Some 100) true;
           Recv 1 12 230 230 1900 2000 h2_fields 9 true None (Some 100) true;
           Tick; Tick; Tick; Tick; Tick;
           Claim 1 false;
           Recv 2 21 200 200 900 1000 h2_fields 9 true None (Some 100) false;
           Recv 2 22 200 200 900 1000 h2_fields 9 true None (Some 99) true ]) =
  [ []; [OClaimable 1 2800 (200 - HTLC_FAIL_BACK_BUFFER)]; []; []; []; []; [];
    [OClaimed 1 2800 [11; 12]; OFulfill 11; OFulfill 12];
    [OFailPart 21 F_FinalIncorrectHTLCAmount]; [OFailPart 22 F_FinalIncorrectHTLCAmount] ].
Proof. vm_compute. reflexivity. Qed.

(** an overshooting set: 1000 + 1000 + 3500 for a total of 3000 (announced: 5500). The part with the
    least expiry is failed back at its deadline; the remaining 4500 still exceed the total, but the
    late claim claims NOTHING and fails both survivors back. *)
Example C04_ex_overshoot_late_claim :
  snd (run (init 100)
         [ Recv 1 11 200 200 1000 1000 h2_fields 9 true None None false;
           Recv 1 12 230 230 1000 1000 h2_fields 9 true None None false;
           Recv 1 13 230 230 3500 3500 h2_fields 9 true None None false;
           Tick; Tick; Tick; Tick;
           Block (200 - HTLC_FAIL_BACK_BUFFER);
           Tick; Tick; Tick; Tick;
           Claim 1 false ]) =
  [ []; []; [OClaimable 1 5500 (200 - HTLC_FAIL_BACK_BUFFER)]; []; []; []; [];
    [OFailPart 11 F_PaymentClaimBuffer]; []; []; []; [];
    [OFailPart 12 F_IncorrectPaymentDetails; OFailPart 13 F_IncorrectPaymentDetails] ].
Proof. vm_compute. reflexivity. Qed.

Example C04_ex_secret_roundtrip :
  (let K := keys_of (repeat 66 32%nat) in
   match create P_exec K (Some 3000) 3600 (repeat 17 32%nat) 1000000 (Some 144) with
   | Some (h, s) =>
       match verify P_exec K h s 3000 1010800 with
       | Some (Some pre, Some 144) => bytes_eqb (sha256 pre) h
       | _ => false
       end
       && match verify P_exec K h s 2999 1010800 with None => true | _ => false end
       && match verify P_exec K h s 3000 1010801 with None => true | _ => false end
   | None => false
   end) = true.
Proof. vm_compute. reflexivity. Qed.
