(** C09 — no state is revealed to the peer before its monitor update is durable.
    Only theorem statements closed by [exact]; the model is [Model/MonUpd.v], proofs are in
    [Proofs/C09a.v], [Proofs/C09b.v], [Proofs/C09.v].

    All theorems quantify over an ARBITRARY list of labels [ls] (handler steps with every possible
    HTLC-dependent decision, persister verdicts, completions in any order, event processing at any time,
    flushes, disconnections, re-establishments) from either initial configuration, in immediate and
    deferred ChainMonitor mode. The documented persister rule is built into [eff]: a [Completed] verdict
    counts only while nothing of the channel is in flight (otherwise the real ChannelManager panics). *)
Require Import LdkV.Prim.U64 LdkV.Model.MonUpd LdkV.Proofs.C09a LdkV.Proofs.C09b LdkV.Proofs.C09.
Open Scope Z_scope.

(** The updates handed to chain::Watch over the whole run carry the ids base+1, base+2, ... in that
    order — through every merge / renumber path (holding-cell free, RAA-then-commitment, preimage jumping
    the blocked queue, blocked-queue release). *)
Theorem C09_ids_gap_free : forall (c : cfg) (ls : list label),
  consec (base_of c + 1) (map uid (all_watched (init_of c) ls)).
Proof. exact ids_gap_free. Qed.

(** Whenever a message, the funding broadcast, forwards/fails handed back to the manager or a completion
    action leaves (output [ORel k d]), EVERY update handed to the watch so far is durable (for completion
    actions: every update other than the initial monitor) — in particular the update [d] it depends on and
    all earlier ones. The only exception is the output of finding F1. *)
Theorem C09_no_early_release : forall (c : cfg) (ls : list label) (l : label),
  let s := reach c ls in
  let '(s', o) := step s l in
  forall k d, In (ORel k d) o -> ~ excl s l k -> released_ok k s'.
Proof. exact no_early_release. Qed.

(** Finding F1 (channel_ready re-sent by channel_reestablish while the initial persist is pending) is a
    real counterexample to the unrestricted statement. *)
Theorem C09_no_early_release_refuted_F1 :
  exists ls l k d,
    let s := reach (CNew 0 true false) ls in
    In (ORel k d) (snd (step s l)) /\ excl s l k /\ ~ released_ok k (fst (step s l)).
Proof. exact F1_refuted. Qed.

(** While any handed update is not yet durable the channel is frozen, and a locally initiated operation
    (send, queue, holding-cell free, claim) releases nothing, builds no commitment, and hands the watch
    nothing but a PaymentPreimage update. *)
Theorem C09_frozen_while_pending : forall (c : cfg) (ls : list label) (l : label),
  let s := reach c ls in
  outstanding s ->
  mip (ch s) = true /\
  (local l ->
   let '(s', o) := step s l in
   (forall k d, ~ In (ORel k d) o) /\
   (forall u, In (OWatch u) o -> usteps u = [KPreimage]) /\
   arr (ch s') = arr (ch s) /\ mip (ch s') = true).
Proof. exact frozen_while_pending. Qed.

(** In runs without disconnection: what is owed to the peer is exactly what is recorded in
    monitor_pending_{revoke_and_ack,commitment_signed}; resuming releases exactly those, in resend_order,
    and clears the record; an unfrozen channel holds and owes nothing; a completion reported when nothing
    is outstanding releases nothing. *)
Theorem C09_release_exact : forall (c : cfg) (ls : list label),
  connected ls ->
  let s := reach c ls in
  owed_raa (gh s) = p_raa (ch s) /\ owed_cs (gh s) = p_cs (ch s) /\
  (mip (ch s) = false ->
     p_raa (ch s) = false /\ p_cs (ch s) = false /\ p_cr (ch s) = false /\ p_fwd (ch s) = [] /\ acts (mg s) = [] /\
     owed_raa (gh s) = false /\ owed_cs (gh s) = false) /\
  (wire (snd (restored s)) =
     (if raa_first (ch s)
      then (if p_raa (ch s) then [RRaa] else []) ++ (if p_cs (ch s) then [RCs] else [])
      else (if p_cs (ch s) then [RCs] else []) ++ (if p_raa (ch s) then [RRaa] else [])) /\
   owed_raa (gh (fst (restored s))) = false /\ owed_cs (gh (fst (restored s))) = false /\
   p_raa (ch (fst (restored s))) = false /\ p_cs (ch (fst (restored s))) = false) /\
  (mip (ch s) = false -> forall id,
     (forall k d, ~ In (ORel k d) (snd (step s (LComplete id)))) /\
     (forall k d, ~ In (ORel k d) (snd (step s LEvents)))).
Proof. exact release_exact. Qed.

(** The ChainMonitor pushes MonitorEvent::Completed only when its pending list for the channel is empty
    (immediate and deferred mode), reporting the id of the last applied update; queued (deferred) updates
    are exactly the next ids in order, so [flush] applies them in the order they were handed. *)
Theorem C09_chainmonitor_completed_last : forall (c : cfg) (ls : list label) (l : label),
  let s := reach c ls in
  let '(s', o) := step s l in
  (forall h, In (OCmEvent h) o -> cmp (cm s') = [] /\ h = applied (cm s')) /\
  consec (applied (cm s') + 1) (map uid (cmq (cm s'))) /\
  applied (cm s') + zlen (cmq (cm s')) = base_of c + zlen (handed (gh s')) - 1.
Proof. exact chainmonitor_completed_last. Qed.

(** Non-vacuity: a run with asynchronous persistence, a preimage update handed while frozen, an
    out-of-order completion and the final release (RAA, then CS, then the claim's completion action). *)
Example C09_demo_run :
  run_outs (init_open 0 false) demo =
  [[OWatch (mkUpd 1 [KHolder; KCparty])]; [OWatch (mkUpd 2 [KPreimage])]; []; []; [OCmEvent 2];
   [ORel RRaa 1; ORel RCs 1; ORel RAction 2]].
Proof. exact demo_outs. Qed.
Example C09_demo_outstanding : outstanding (reach (COpen 0 false) [LRecvCS true VInProgress]).
Proof. exact demo_outstanding. Qed.
