(** C16 — returned routes are valid for the graph and for the caller's constraints.
    Only statements closed by [exact]; proofs in Proofs/C16.v and Proofs/C16Recompute.v.

    [route_valid] ([Model/RouteSpec.v]) is the property text written clause by clause over the view
    of the graph the router is given; its fee clause uses [compute_fees] regenerated from
    router.rs by rs2v.  The path search of [get_route] is NOT modelled or proved: the check runs the
    verified [route_check] on every route the real [find_route] returns. *)
Require Import LdkV.Prim.U64 LdkV.Prim.Rs2vLib LdkV.Gen.RouterFees LdkV.Gen.RouterMpp.
Require Import LdkV.Model.RouteSpec LdkV.Model.RouteWitness LdkV.Model.RouteRecompute.
Require Import LdkV.Proofs.C16 LdkV.Proofs.C16Recompute LdkV.Proofs.C16Mpp.
Open Scope Z_scope.

(** The executable checker accepts exactly the valid routes: sound, and never a false alarm. *)
Theorem C16_checker_exact : forall g q r, route_check g q r = true <-> route_valid g q r.
Proof. exact checker_exact. Qed.

(** The judge of the check: [route_ok] (= the checker) is sound for the specification, and
    [route_diagnose], which the check evaluates inside Coq on every returned route to name the
    first failing clause, is 0 exactly when the checker accepts: a route is reported iff it is not
    valid. *)
Theorem C16_route_ok_sound : forall g q r, route_ok g q r = true -> route_valid g q r.
Proof. exact route_ok_sound. Qed.

Theorem C16_judge_is_checker : forall g q r, route_diagnose g q r = 0 <-> route_check g q r = true.
Proof. exact diagnose_zero_iff. Qed.

Theorem C16_judge_sound : forall g q r, route_diagnose g q r = 0 -> route_valid g q r.
Proof. exact judge_sound. Qed.

Theorem C16_judge_complete : forall g q r, route_valid g q r -> route_diagnose g q r = 0.
Proof. exact judge_complete. Qed.

(** What acceptance means hop by hop: every path resolves against the view; between 1 and
    [max_path_count] paths; the value is delivered; every leg goes over a usable (enabled, known
    features), non-excluded channel of an allowed kind, carries at least its minimum and leaves the
    policy fee of the next channel; every path respects the length and CLTV limits and ends at the
    payee; the total fees respect the limit.  (Maximum / joint capacity and "no superfluous path"
    are the remaining clauses of [route_valid].) *)
Theorem C16_route_ok_legs : forall g q r,
  route_ok g q r = true ->
  exists all, List.map (resolve g q) r = List.map Some all /\
    1 <= Z.of_nat (List.length r) <= q_max_paths q /\
    q_value q <= sumz (List.map final_amt all) /\
    (forall ls l, In ls all -> In l ls ->
       usable (r_e l) /\ not_excluded q (r_id l) (r_e l) /\ kind_ok q (r_pos l) (e_kind (r_e l)) /\
       e_hmin (r_e l) <= r_amt l /\ fee_ok l) /\
    (forall p ls, In (p, ls) (List.combine r all) ->
       Z.of_nat (List.length (p_hops p)) <= q_max_len q /\
       sumz (List.map h_cltv (p_hops p)) <= q_max_cltv q /\ last_dst ls = Some (q_payee q)) /\
    match q_max_fee q with
    | Some m => sumz (List.map path_fees all) + (sumz (List.map final_amt all) - q_value q) <= m
    | None => True
    end.
Proof. exact route_ok_legs. Qed.

(** The fee formula the checker uses — regenerated from router.rs on every run — is the BOLT 7
    formula [base + amount * proportional_millionths / 1 000 000] ([None] exactly on u64 overflow):
    an edit of the Rust formula breaks this theorem instead of silently changing the specification. *)
Theorem C16_compute_fees_is_bolt7 : forall a f,
  0 <= a -> 0 <= rf_base_msat f -> 0 <= rf_proportional_millionths f ->
  compute_fees a f =
  (if (a * rf_proportional_millionths f <? 2 ^ 64) &&
      (rf_base_msat f + a * rf_proportional_millionths f / 1000000 <? 2 ^ 64)
   then Some (rf_base_msat f + a * rf_proportional_millionths f / 1000000) else None).
Proof. exact compute_fees_bolt7. Qed.

Theorem C16_compute_fees_saturating_is_bolt7 : forall a f,
  compute_fees_saturating a f =
  Z.min (2 ^ 64 - 1)
    ((if a * rf_proportional_millionths f <? 2 ^ 64
      then a * rf_proportional_millionths f / 1000000 else 2 ^ 64 - 1) + rf_base_msat f).
Proof. exact compute_fees_saturating_bolt7. Qed.

(** Whatever the witness search returns is, on its own, a valid route (used for the completeness
    clause: the router reports failure although such a path exists). *)
Theorem C16_witness_sound : forall g q fc p,
  single_path_witness g q fc = Some p -> route_valid g q (p :: nil).
Proof. exact witness_sound. Qed.

(** [PaymentPath::update_value_and_recompute_fees] (hand transliteration, validated through a hook):
    when the value is at least the final hop's minimum, afterwards every hop carries at least its
    minimum, every forwarding node is paid at least what the policy of the next channel requires
    for the amount that channel carries, and the contribution is exactly the value. *)
Theorem C16_recompute_pays_policy : forall hops value hops' c,
  recompute hops value = Some (hops', c) ->
  Forall fees_nonneg hops -> 0 <= value -> last_hmin hops <= value ->
  pays_policy hops' /\ c = value.
Proof. exact recompute_pays_policy. Qed.

(** In every case the returned contribution is the value raised to the final hop's minimum. *)
Theorem C16_recompute_contribution : forall hops value hops' c,
  recompute hops value = Some (hops', c) -> hops <> nil ->
  c = Z.max value (last_hmin hops).
Proof. exact recompute_contribution. Qed.

(** Without the hypothesis [last_hmin hops <= value] the statement is FALSE for the faithful model:
    when the final hop is raised to its minimum, the hops before it are recomputed for the
    un-raised value.  Witness (three hops, 10 %% proportional fee on the middle channel, final
    minimum 2 000 000, value 1 000 000): the middle node is paid 100 000 msat for forwarding
    2 000 000 msat.  The check replays it on the real method and looks for it in real routes. *)
Theorem C16_recompute_pays_policy_refuted :
  exists hops value hops' c,
    Forall fees_nonneg hops /\ 0 <= value /\ recompute hops value = Some (hops', c) /\
    pays_policy_b hops' = false /\
    List.map ph_fee hops' = (100000 :: 0 :: 2000000 :: nil)%list /\ c = 2000000.
Proof. exact recompute_last_raise_underpays. Qed.

(** The same for a raise at ANY position, in exact form: the final hop carries [value]; every other
    hop carries the larger of its own [htlc_minimum_msat] and what has to be forwarded (the next
    hop's amount plus the policy fee of the next channel for it), the surplus being left as fee
    with the node in between — so the hops BEFORE a raised hop are computed for the raised amount
    (in the Rust: [total_fee_paid_msat += extra_fees_msat]).  [Examples.midpath_raise]: five hops,
    hop 2 raised from 1 006 505 to its minimum 3 000 000, proportional fees before and after. *)
Theorem C16_recompute_exact : forall hops value hops' c,
  recompute hops value = Some (hops', c) ->
  Forall fees_nonneg hops -> 0 <= value -> last_hmin hops <= value ->
  exact_policy value hops'.
Proof. exact recompute_exact. Qed.

(** Monotonicity (the arithmetic around finding F1): for the same channel policies, two paths in the
    exact form of [C16_recompute_exact] — i.e. recomputed for values [v <= v'] that are not below
    the final hop's minimum — satisfy: NO hop's amount is lower for the larger value.  When the final
    hop is raised instead, the hops before it are computed for the un-raised value
    ([C16_recompute_pays_policy_refuted]): that is exactly where the correspondence between value
    and upstream amounts breaks.  [Examples.monotone_amounts]: the five-hop path at 1 000 000 and
    4 000 000 msat. *)
Theorem C16_recompute_amounts_monotone : forall v v' hs hs',
  Forall2 same_policy hs hs' -> Forall fees_nonneg hs ->
  exact_policy v hs -> exact_policy v' hs' -> v <= v' ->
  Forall2 Z.le (amounts hs) (amounts hs').
Proof. exact exact_policy_mono. Qed.

(** ** The path-count clause
    [get_route] only collects paths contributing at least [minimal_value_contribution_msat]
    (regenerated from router.rs by rs2v, anchored at its [let]) and drops superfluous paths.  The
    regenerated expression is the share rounded UP … *)
Theorem C16_min_contribution_is_div_ceil : forall V N,
  minimal_value_contribution_msat true V N = (V + N - 1) / N /\
  minimal_value_contribution_msat false V N = V.
Proof. exact min_contribution_div_ceil. Qed.

(** … for which [max_path_count] paths always reach the value … *)
Theorem C16_min_contribution_reaches_value : forall V N cs,
  0 < N -> 0 <= V ->
  Forall (fun c => minimal_value_contribution_msat true V N <= c) cs ->
  N <= Z.of_nat (List.length cs) -> V <= sumz cs.
Proof. exact min_contribution_reaches_value. Qed.

(** … so that a route without a superfluous path (clause 5 of [route_valid]) made of such paths
    has at most [max_path_count] paths (clause 1). *)
Theorem C16_path_count_bound : forall V N cs,
  0 < N -> 0 <= V ->
  Forall (fun c => minimal_value_contribution_msat true V N <= c) cs ->
  Forall (fun c => sumz cs - c < V) cs ->
  Z.of_nat (List.length cs) <= N.
Proof. exact path_count_bound. Qed.

(** With the share rounded DOWN ([max (V / N) 1]) both statements are false: 10 msat, at most 3
    paths, pieces of 3 — three pieces do not reach 10, four make a route without a superfluous path. *)
Theorem C16_floor_contribution_refuted :
  exists V N cs, 0 < N /\ 0 <= V /\
    Forall (fun c => Z.max (V / N) 1 <= c) cs /\
    Forall (fun c => sumz cs - c < V) cs /\ V <= sumz cs /\
    N < Z.of_nat (List.length cs) /\ sumz (List.firstn (Z.to_nat N) cs) < V.
Proof. exact floor_contribution_refuted. Qed.

Theorem C16_pays_policy_decidable : forall hops, pays_policy_b hops = true <-> pays_policy hops.
Proof. exact pays_policy_b_iff. Qed.

(** ** Non-vacuity: a concrete two-path route over shared channels is valid; small changes are not *)
Module Examples.
  Definition f (b p : Z) := mkRoutingFees b p.
  (* payer 0, payee 3; 0-1 (first hops 11, 12), 1-2 (public 21), 2-3 (public 31, capacity 3 000 000),
     1-3 (hint 41) *)
  Definition g : graph :=
    mkEdge KFirst 11 0 1 true 0 5000000 (Some 5000000) (f 0 0) 0 nil true true ::
    mkEdge KFirst 12 0 1 true 0 5000000 (Some 5000000) (f 0 0) 0 nil true true ::
    mkEdge KPublic 21 1 2 true 1000 4000000 (Some 10000000) (f 1000 1000) 40 nil true true ::
    mkEdge KPublic 31 2 3 true 1000 3000000 (Some 3000000) (f 2000 10000) 144 nil true true ::
    mkEdge KHint 41 1 3 true 0 1500000 None (f 500 0) 18 nil true true :: nil.
  Definition q : params := mkParams 0 3 3000000 2 (Some 100000) 1008 19 (99 :: nil) nil true.
  (* 2 000 000 over 11/21/31 and 1 000 000 over 12/41 *)
  Definition r : route :=
    mkPath (mkHop 11 1 (1000 + 2022) 40 :: mkHop 21 2 (2000 + 20000) 144 :: mkHop 31 3 2000000 42 :: nil) None ::
    mkPath (mkHop 12 1 500 18 :: mkHop 41 3 1000000 42 :: nil) None :: nil.

  Example valid_route : route_valid g q r.
  Proof. apply C16_checker_exact. vm_compute. reflexivity. Qed.
  Example route_ok_accepts : route_ok g q r = true /\ route_diagnose g q r = 0.
  Proof. vm_compute. split; reflexivity. Qed.

  (* one msat less fee for node 1 *)
  Example underpaid_is_invalid :
    ~ route_valid g q
        (mkPath (mkHop 11 1 (1000 + 2021) 40 :: mkHop 21 2 (2000 + 20000) 144 :: mkHop 31 3 2000000 42 :: nil) None ::
         mkPath (mkHop 12 1 500 18 :: mkHop 41 3 1000000 42 :: nil) None :: nil).
  Proof. rewrite <-C16_checker_exact. vm_compute. discriminate. Qed.

  (* both paths over channel 31: 2 000 000 + 1 000 000 + fees exceed neither maximum alone, but the
     hint 41 is replaced by 21/31 and the joint amount exceeds the capacity of 31 *)
  Example joint_capacity_is_checked :
    route_diagnose g q
      (mkPath (mkHop 11 1 (1000 + 2022) 40 :: mkHop 21 2 (2000 + 20000) 144 :: mkHop 31 3 2000000 42 :: nil) None ::
       mkPath (mkHop 12 1 (1000 + 1012) 40 :: mkHop 21 2 (2000 + 10001) 144 :: mkHop 31 3 1000001 42 :: nil) None :: nil) = 10.
  Proof. vm_compute. reflexivity. Qed.

  (* a superfluous third path *)
  Example superfluous_path_is_invalid :
    route_diagnose g (mkParams 0 3 3000000 3 None 1008 19 nil nil true)
      (r ++ mkPath (mkHop 12 1 500 18 :: mkHop 41 3 400000 42 :: nil) None :: nil) = 12.
  Proof. vm_compute. reflexivity. Qed.

  Example witness_example :
    single_path_witness g (mkParams 0 3 1500000 1 None 1008 19 nil nil true) 42 =
    Some (mkPath (mkHop 11 1 500 18 :: mkHop 41 3 1500000 42 :: nil) None).
  Proof. vm_compute. reflexivity. Qed.

  (* a raise in the middle of a path: fees, amounts, policy verdict, contribution *)
  Example midpath_raise :
    match recompute midbump_hops 1000000 with
    | Some (hs, c) => (List.map ph_fee hs, amounts hs, pays_policy_b hs, c)
    | None => (nil, nil, false, 0)
    end = ((31600 :: 60000 :: 1999000 :: 1000 :: 1000000 :: nil)%list,
           (3091600 :: 3060000 :: 3000000 :: 1001000 :: 1000000 :: nil)%list, true, 1000000).
  Proof. exact midbump_example. Qed.

  (* identifiers: the payer's channel to node 1 is known as 11 (alias, the id routes use) and 911
     (real scid); 1-3 is announced twice, 22 with a feature bit the router does not know *)
  Definition g2 : graph :=
    mkEdge KFirst 11 0 1 true 0 1000000 (Some 1500000) (f 0 0) 0 (911 :: nil) true true ::
    mkEdge KPublic 21 1 3 true 0 5000000 (Some 5000000) (f 1000 0) 40 nil true true ::
    mkEdge KPublic 22 1 3 true 0 5000000 (Some 5000000) (f 0 0) 40 nil false true :: nil.
  Definition one (excl : list Z) (id1 id2 : Z) : Z :=
    route_diagnose g2 (mkParams 0 3 800000 2 None 1008 19 excl nil true)
      (mkPath (mkHop id1 1 (if id2 =? 21 then 1000 else 0) 40 :: mkHop id2 3 800000 42 :: nil) None :: nil).
  Example channel_identifiers :
    (* naming the channel by its other identifier is a hop over the same channel … *)
    one nil 911 21 = 0 /\
    (* … whose capacity is counted once: 2 x 801 000 msat over 11 and 911 exceed 1 500 000 *)
    route_diagnose g2 (mkParams 0 3 1600000 2 None 1008 19 nil nil true)
      (mkPath (mkHop 11 1 1000 40 :: mkHop 21 3 800000 42 :: nil) None ::
       mkPath (mkHop 911 1 1000 40 :: mkHop 21 3 800000 42 :: nil) None :: nil) = 10 /\
    (* exclusion is by the identifiers as routes name them: listing the route identifier 11 excludes
       the channel under whichever name a hop reaches it, a hop naming a listed scid is excluded,
       but listing 911 — which no route would contain — does not exclude the channel named 11 *)
    one (11 :: nil) 11 21 = 6 /\ one (11 :: nil) 911 21 = 6 /\ one (911 :: nil) 911 21 = 6 /\
    one (911 :: nil) 11 21 = 0 /\
    (* a channel whose announcement requires an unknown feature is not usable *)
    one nil 11 22 = 5.
  Proof. vm_compute. repeat split; reflexivity. Qed.

  Example monotone_amounts :
    match recompute midbump_hops 1000000, recompute midbump_hops 4000000 with
    | Some (hs, _), Some (hs', _) => (amounts hs, amounts hs')
    | _, _ => (nil, nil)
    end = ((3091600 :: 3060000 :: 3000000 :: 1001000 :: 1000000 :: nil)%list,
           (4147060 :: 4105010 :: 4024520 :: 4004000 :: 4000000 :: nil)%list).
  Proof. exact mono_example. Qed.
End Examples.
