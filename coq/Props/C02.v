(** C02 — a forwarding node never loses money on an HTLC it forwards.
    This file holds only theorem statements closed by [exact]; proofs are in Proofs/C02*.v.
    Part 1: admission arithmetic, for ALL amounts / fees / deltas in type range. Every function named
    here except the glue of Model/FwdAdmission.v ([cfg_run], [htlc_satisfies_config],
    [unknown_chan_sanity]) is GENERATED from the Rust source by tools/rs2v on each run. *)
Require Import LdkV.Prim.U64 LdkV.Prim.Rs2vLib LdkV.Gen.Consts LdkV.Gen.CltvChecks LdkV.Gen.CfgChecks
  LdkV.Gen.FwdChecks LdkV.Model.FwdAdmission LdkV.Proofs.C02Admission
  LdkV.Model.Fwd LdkV.Proofs.C02Fwd
  LdkV.Gen.ChanUtilsFees LdkV.Gen.TxBuilder LdkV.Proofs.C02Dust.
Open Scope Z_scope.

(** The per-config check accepts exactly when the offered amount plus the advertised fee on it fits
    in what was received, the expiry leaves the advertised delta, and no [u64] operation overflowed. *)
Theorem C02_fee_check_exact : forall in_amt in_cltv out_amt out_cltv c,
  0 <= out_amt ->
  internal_htlc_satisfies_config in_amt in_cltv out_amt out_cltv c = ROk tt <->
  (out_amt * cc_forwarding_fee_proportional_millionths c < 2 ^ 64 /\ adv_fee c out_amt < 2 ^ 64 /\
   out_amt + adv_fee c out_amt <= in_amt /\ out_cltv + cc_cltv_expiry_delta c <= in_cltv).
Proof. exact internal_ok_iff. Qed.

Theorem C02_fee_check_errors : forall in_amt in_cltv out_amt out_cltv c,
  0 <= out_amt ->
  (~ (out_amt * cc_forwarding_fee_proportional_millionths c < 2 ^ 64 /\ adv_fee c out_amt < 2 ^ 64 /\
      out_amt + adv_fee c out_amt <= in_amt) ->
     internal_htlc_satisfies_config in_amt in_cltv out_amt out_cltv c = RErr "FeeInsufficient") /\
  ((out_amt * cc_forwarding_fee_proportional_millionths c < 2 ^ 64 /\ adv_fee c out_amt < 2 ^ 64 /\
    out_amt + adv_fee c out_amt <= in_amt) ->
     in_cltv < out_cltv + cc_cltv_expiry_delta c ->
     internal_htlc_satisfies_config in_amt in_cltv out_amt out_cltv c = RErr "IncorrectCLTVExpiry").
Proof. exact internal_errors. Qed.

Theorem C02_fee_check_no_panic : forall in_amt in_cltv out_amt out_cltv c,
  in_u 64 in_amt = true -> in_u 32 in_cltv = true -> in_u 64 out_amt = true ->
  in_u 32 out_cltv = true -> cfg_in_range c = true ->
  internal_htlc_satisfies_config_safe in_amt in_cltv out_amt out_cltv c = true.
Proof. exact internal_safe. Qed.

(** For every sequence of config updates and timer ticks: the previous config is younger than its
    expiry and every honoured config carries a delta the API accepted. *)
Theorem C02_config_invariant : forall ops s, cfg_inv s -> cfg_inv (cfg_run s ops).
Proof. exact cfg_run_inv. Qed.

Theorem C02_prev_config_expires : forall s,
  cfg_inv s ->
  let s' := cfg_run s (ticks (Z.to_nat EXPIRE_PREV_CONFIG_TICKS)) in
  cs_prev s' = None /\ cs_cur s' = cs_cur s.
Proof. exact ticks_expire. Qed.

(** The amount/expiry clause of the property. *)
Theorem C02_admission : forall s0 ops h in_amt in_cltv out_amt out_cltv,
  cfg_inv s0 ->
  let s := cfg_run s0 ops in
  htlc_satisfies_config s in_amt in_cltv out_amt out_cltv = ROk tt ->
  check_incoming_htlc_cltv h out_cltv in_cltv MIN_CLTV_EXPIRY_DELTA = ROk tt ->
  exists c,
    (c = cs_cur s \/ exists n, cs_prev s = Some (c, n) /\ 0 <= n < EXPIRE_PREV_CONFIG_TICKS) /\
    out_amt + adv_fee c out_amt <= in_amt /\
    out_cltv + cc_cltv_expiry_delta c <= in_cltv /\
    MIN_CLTV_EXPIRY_DELTA <= cc_cltv_expiry_delta c /\
    out_cltv + MIN_CLTV_EXPIRY_DELTA <= in_cltv /\
    in_cltv > h + HTLC_FAIL_BACK_BUFFER /\ out_cltv > h + LATENCY_GRACE_PERIOD_BLOCKS.
Proof. exact admission. Qed.

Theorem C02_admission_complete : forall s in_amt in_cltv out_amt out_cltv c,
  0 <= out_amt ->
  (c = cs_cur s \/ exists n, cs_prev s = Some (c, n)) ->
  out_amt * cc_forwarding_fee_proportional_millionths c < 2 ^ 64 -> adv_fee c out_amt < 2 ^ 64 ->
  out_amt + adv_fee c out_amt <= in_amt -> out_cltv + cc_cltv_expiry_delta c <= in_cltv ->
  htlc_satisfies_config s in_amt in_cltv out_amt out_cltv = ROk tt.
Proof. exact htlc_satisfies_config_complete. Qed.

Theorem C02_admission_never_pays : forall c in_amt out_amt,
  0 <= cc_forwarding_fee_proportional_millionths c -> 0 <= cc_forwarding_fee_base_msat c -> 0 <= out_amt ->
  out_amt + adv_fee c out_amt <= in_amt ->
  out_amt <= in_amt /\ adv_fee c out_amt <= in_amt - out_amt /\ 0 <= adv_fee c out_amt.
Proof. exact admission_no_loss. Qed.

Theorem C02_unknown_channel_sanity : forall in_amt in_cltv out_amt out_cltv,
  unknown_chan_sanity in_amt in_cltv out_amt out_cltv = ROk tt ->
  out_amt <= in_amt /\ out_cltv + MIN_CLTV_EXPIRY_DELTA <= in_cltv.
Proof. exact unknown_chan_sanity_sound. Qed.

(** The same clause for forwards to an SCID WITHOUT a channel (phantom receive, interception of intercept
    SCIDs / unknown SCIDs): for every kind of SCID and every setting of the interception flags. *)
Theorem C02_admission_no_channel : forall k fi fu h in_amt in_cltv out_amt out_cltv b,
  no_channel_admission k fi fu h in_amt in_cltv out_amt out_cltv = ROk b ->
  out_amt <= in_amt /\ out_cltv + MIN_CLTV_EXPIRY_DELTA <= in_cltv /\
  in_cltv > h + HTLC_FAIL_BACK_BUFFER /\ out_cltv > h + LATENCY_GRACE_PERIOD_BLOCKS /\
  (b = true -> needs_intercept_unknown k fi fu = true) /\ (b = false -> k = ScidPhantom).
Proof. exact no_channel_admission_sound. Qed.

(** Blinded forwards: [amt_to_forward_msat] returns the LARGEST amount whose fee still fits (an
    off-by-one either way loses or overcharges 1 msat), or [None] exactly when nothing fits. *)
Theorem C02_amt_to_forward_largest : forall inbound r,
  0 <= inbound < 2 ^ 64 -> 0 <= pr_fee_base_msat r -> 0 <= pr_fee_proportional_millionths r ->
  match amt_to_forward_msat inbound r with
  | Some a => 0 < a /\ relay_gross r a <= inbound /\ (forall a', a < a' -> inbound < relay_gross r a')
  | None => forall a', 0 < a' -> inbound < relay_gross r a'
  end.
Proof. exact amt_to_forward_spec. Qed.

Theorem C02_amt_to_forward_inverts_fee : forall r a,
  0 < a -> 0 <= pr_fee_base_msat r -> 0 <= pr_fee_proportional_millionths r -> relay_gross r a < 2 ^ 64 ->
  amt_to_forward_msat (relay_gross r a) r = Some a.
Proof. exact amt_to_forward_inverts. Qed.

Theorem C02_amt_to_forward_no_panic : forall inbound r,
  in_u 64 inbound = true -> relay_in_range r = true ->
  amt_to_forward_msat_safe inbound r = true.
Proof. exact amt_to_forward_safe. Qed.

Theorem C02_blinded_admission : forall in_amt in_cltv r pc unk out_amt out_cltv,
  0 <= in_amt < 2 ^ 64 -> 0 <= pr_fee_base_msat r -> 0 <= pr_fee_proportional_millionths r ->
  0 <= pr_cltv_expiry_delta r ->
  check_blinded_forward in_amt in_cltv r pc unk = ROk (out_amt, out_cltv) ->
  0 < out_amt /\ relay_gross r out_amt <= in_amt /\
  (forall a', out_amt < a' -> in_amt < relay_gross r a') /\
  out_cltv + pr_cltv_expiry_delta r = in_cltv /\ 0 <= out_cltv /\
  pc_htlc_minimum_msat pc <= in_amt /\ in_cltv <= pc_max_cltv_expiry pc /\ unk = false /\
  (out_amt * pr_fee_proportional_millionths r < 2 ^ 64 ->
   internal_htlc_satisfies_config in_amt in_cltv out_amt out_cltv
     (mkChannelConfig (pr_fee_proportional_millionths r) (pr_fee_base_msat r) (pr_cltv_expiry_delta r)) = ROk tt).
Proof. exact blinded_forward_sound. Qed.

(** Non-vacuity. *)
Example C02_admission_nonvacuous :
  let s0 := {| cs_cur := mkChannelConfig 0 1000 48; cs_prev := None |} in
  let ops := [OpUpdate (mkChannelConfig 1000 5 60); OpTick; OpTick] in
  cfg_inv s0 /\
  cs_prev (cfg_run s0 ops) = Some (mkChannelConfig 0 1000 48, 2) /\
  (* satisfies only the previous config *)
  htlc_satisfies_config (cfg_run s0 ops) 2000000 800 1999000 752 = ROk tt /\
  internal_htlc_satisfies_config 2000000 800 1999000 752 (cs_cur (cfg_run s0 ops)) = RErr "FeeInsufficient" /\
  check_incoming_htlc_cltv 700 752 800 MIN_CLTV_EXPIRY_DELTA = ROk tt.
Proof. vm_compute. repeat split; try discriminate; reflexivity. Qed.

Example C02_amt_to_forward_examples :
  amt_to_forward_msat 1000 (mkPaymentRelay 40 1000 10) = Some 990 /\
  amt_to_forward_msat 10 (mkPaymentRelay 40 1000 10) = None /\
  amt_to_forward_msat 11 (mkPaymentRelay 40 1000 10) = Some 1 /\
  amt_to_forward_msat (2 ^ 64 - 1) (mkPaymentRelay 0 0 0) = Some (2 ^ 64 - 1) /\
  check_blinded_forward 1000 500 (mkPaymentRelay 40 1000 10) (mkPaymentConstraints 600 1) false = ROk (990, 460).
Proof. vm_compute. repeat split; reflexivity. Qed.

(** Part 2: ordering, for EVERY list of labels of the abstract forwarding model [Model/Fwd.v]
    (deliveries on the downstream link, completion of each monitor update in any order, on-chain
    events, manager writes at any point, crashes at any point with every in-flight write
    independently landed or not). *)

(** The update of the downstream monitor that makes the fulfilled HTLC unrecoverable from it is handed
    to the persister only after the upstream preimage update was reported complete; so on the disk
    found after ANY crash, "downstream forgot" implies "upstream knows the preimage". *)
Theorem C02_preimage_before_forget : forall ls,
  let s := run init ls in
  (forget_at_persister (m s) = true -> preimage_complete (m s) = true) /\
  (forall lu lf, landedF (m s) lf = true -> landedU (m s) lu = true).
Proof. exact preimage_before_forget. Qed.

(** In every reachable state, also right after a restart: a fulfil learned downstream (message or
    chain) has been claimed upstream, and if C has irrevocably been paid the upstream claim is in
    flight or durable. *)
Theorem C02_claim_whenever_known : forall ls,
  let s := run init ls in
  (fulfilish (down (m s)) = true -> is_claimish (up (m s)) = true) /\
  (c_paid (g s) = true -> is_claimish (up (m s)) = true).
Proof. exact claim_whenever_known. Qed.

Theorem C02_claim_progress : forall ls,
  let s := run init ls in
  up (m s) = UClaimInFlight -> up (m (step s LCompleteU)) = UClaimed.
Proof. exact claim_progress. Qed.

Theorem C02_fail_only_when_safe : forall ls,
  let s := run init ls in
  up (m s) = UFailed ->
  c_failed (g s) = true \/
  (d_conf (g s) = Some false /\ timeout_buried (g s) = true) \/
  (d_conf (g s) = Some true /\ timeout_buried (g s) = true).
Proof. exact fail_only_when_safe. Qed.

(** ... where a burial label fires only for its own kind of CONFIRMED commitment (no output there /
    an output there), whichever of the four commitments of D it is. *)
Theorem C02_burial_matches_confirmed_commitment : forall x gh,
  (fst (lstep x gh LChainNoOutputBuried) <> x -> d_conf gh = Some false) /\
  (fst (lstep x gh LChainTimeoutSpendBuried) <> x -> d_conf gh = Some true).
Proof. exact burial_needs_matching_output. Qed.

Theorem C02_no_loss : forall ls (in_amt out_amt fee : nat),
  (out_amt + fee <= in_amt)%nat ->
  let s := run init ls in
  (c_paid (g s) = true -> c_failed (g s) = false /\ timeout_buried (g s) = false /\ up (m s) <> UFailed) /\
  (up (m s) = UFailed -> c_paid (g s) = false) /\
  exists v, net s in_amt out_amt = Some v /\ (c_paid (g s) = true -> (fee <= v)%nat).
Proof. exact no_loss. Qed.

(** Non-vacuity: the blocker is exercised, a crash inside the window is survived, both fail paths
    and the on-chain claim path are reachable. *)
Example C02_model_window :
  let s := run init [LForward; LFulfil false; LCommitFulfil true; LRaaFulfil true] in
  dForget (m s) = FHeld /\ c_paid (g s) = true /\ up (m s) = UClaimInFlight /\
  dForget (m (step s LCompleteU)) = FInFlight /\ up (m (step s LCompleteU)) = UClaimed.
Proof. vm_compute. repeat split. Qed.

Example C02_model_crash_in_window :
  let s := run init [LForward; LPersistMgr; LFulfil false; LCommitFulfil true; LRaaFulfil true; LCrash false false false] in
  c_paid (g s) = true /\ up (m s) = UClaimInFlight /\ uPre (m s) = InFlight /\ dForget (m s) = FNot /\
  down (m s) = DOnChain.
Proof. vm_compute. repeat split. Qed.

Example C02_model_fail_paths :
  up (m (run init [LForward; LFailMsg; LCommitFail; LRaaFail])) = UFailed /\
  up (m (run init [LForward; LCloseD HolderCurrent false; LChainNoOutputBuried])) = UFailed /\
  (* the previous holder commitment confirmed WITH an output: burial of the commitment alone fails nothing *)
  up (m (run init [LForward; LFailMsg; LCommitFail; LCloseD HolderPrevious true; LChainNoOutputBuried])) = UCommitted /\
  up (m (run init [LForward; LCloseD HolderPrevious true; LChainTimeoutSpendBuried])) = UFailed /\
  up (m (run init [LForward; LCloseD CounterpartyCurrent true; LChainPreimage false; LCrash false false false])) = UClaimInFlight /\
  up (m (run init [LForward; LFailMsg; LCommitFail])) = UCommitted.
Proof. vm_compute. repeat split. Qed.

(** Part 3: dust exposure. The four comparisons are the anchored, generated conditions of
    [validate_update_fee] / [can_accept_incoming_htlc] (holder-commitment and counterparty-commitment
    exposure each against [max_dust_htlc_exposure]); the exposures are those the generated
    [get_dust_exposure_stats] computes. A feerate update / inbound HTLC that passes leaves the total of
    the HTLCs without an output within the limit on BOTH commitments. *)
Theorem C02_dust_bound : forall htlcs f lim dl cdl ct mx,
  update_fee_dust_ok (fst (get_dust_exposure_stats true htlcs f lim dl ct))
                     (fst (get_dust_exposure_stats false htlcs f lim cdl ct)) mx = true ->
  htlc_dust_total true htlcs (get_dust_buffer_feerate f) dl ct <= mx /\
  htlc_dust_total false htlcs (get_dust_buffer_feerate f) cdl ct <= mx.
Proof. exact dust_bound_update_fee. Qed.

Theorem C02_dust_bound_accept : forall htlcs f lim dl cdl ct mx,
  accept_htlc_dust_ok (fst (get_dust_exposure_stats true htlcs f lim dl ct))
                      (fst (get_dust_exposure_stats false htlcs f lim cdl ct)) mx = true ->
  htlc_dust_total true htlcs (get_dust_buffer_feerate f) dl ct <= mx /\
  htlc_dust_total false htlcs (get_dust_buffer_feerate f) cdl ct <= mx.
Proof. exact dust_bound_accept. Qed.

(** Non-vacuity: two 3 800 sat HTLCs offered by the node, feerate raised to 2530 sat/kw: no dust on its
    own commitment, 7.6M msat on the counterparty's; a 5M msat limit refuses, a 8M msat limit accepts. *)
Example C02_dust_band :
  let ct := mkChannelTypeFeatures false false in
  let hs := [mkHTLCAmountDirection true 3800000; mkHTLCAmountDirection true 3800000] in
  let l := fst (get_dust_exposure_stats true hs 2530 None 354 ct) in
  let r := fst (get_dust_exposure_stats false hs 2530 None 354 ct) in
  l = 0 /\ r = 7600000 /\ update_fee_dust_ok l r 5000000 = false /\ update_fee_dust_ok l r 8000000 = true.
Proof. vm_compute. repeat split. Qed.
