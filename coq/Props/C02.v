(** C02 — a forwarding node never loses money on an HTLC it forwards.
    This file holds only theorem statements closed by [exact]; proofs are in Proofs/C02*.v.
    Part 1 (this section): admission arithmetic, for ALL amounts / fees / deltas in type range. *)
Require Import LdkV.Prim.U64 LdkV.Gen.Consts LdkV.Gen.ConstsC02 LdkV.Model.CltvHand
  LdkV.Model.FwdAdmission LdkV.Proofs.C02Admission.
Open Scope Z_scope.

(** The per-config check accepts exactly when the offered amount plus the advertised fee on it fits
    in what was received, the expiry leaves the advertised delta, and no [u64] operation overflowed. *)
Theorem C02_fee_check_exact : forall in_amt in_cltv out_amt out_cltv c,
  0 <= out_amt ->
  internal_htlc_satisfies_config in_amt in_cltv out_amt out_cltv c = ROk tt <->
  (out_amt * fc_prop c < 2 ^ 64 /\ adv_fee c out_amt < 2 ^ 64 /\
   out_amt + adv_fee c out_amt <= in_amt /\ out_cltv + fc_delta c <= in_cltv).
Proof. exact internal_ok_iff. Qed.

Theorem C02_fee_check_errors : forall in_amt in_cltv out_amt out_cltv c,
  0 <= out_amt ->
  (~ (out_amt * fc_prop c < 2 ^ 64 /\ adv_fee c out_amt < 2 ^ 64 /\ out_amt + adv_fee c out_amt <= in_amt) ->
     internal_htlc_satisfies_config in_amt in_cltv out_amt out_cltv c = RErr "FeeInsufficient") /\
  ((out_amt * fc_prop c < 2 ^ 64 /\ adv_fee c out_amt < 2 ^ 64 /\ out_amt + adv_fee c out_amt <= in_amt) ->
     in_cltv < out_cltv + fc_delta c ->
     internal_htlc_satisfies_config in_amt in_cltv out_amt out_cltv c = RErr "IncorrectCLTVExpiry").
Proof. exact internal_errors. Qed.

Theorem C02_fee_check_no_panic : forall in_amt in_cltv out_amt out_cltv c,
  in_u 64 in_amt = true -> in_u 32 in_cltv = true -> in_u 64 out_amt = true ->
  in_u 32 out_cltv = true -> cfg_in_range c = true ->
  internal_htlc_satisfies_config_safe in_amt in_cltv out_amt out_cltv c = true.
Proof. exact internal_safe. Qed.

(** For every sequence of config updates and timer ticks: the previous config is younger than its
    expiry and every honoured config carries a delta the API accepted. *)
Theorem C02_config_invariant : forall ops s, cfg_inv s -> cfg_inv (cfg_run s ops).
Proof. exact cfg_run_inv. Qed.

Theorem C02_prev_config_expires : forall s,
  cfg_inv s ->
  let s' := cfg_run s (ticks (Z.to_nat EXPIRE_PREV_CONFIG_TICKS)) in
  cs_prev s' = None /\ cs_cur s' = cs_cur s.
Proof. exact ticks_expire. Qed.

(** The amount/expiry clause of the property. *)
Theorem C02_admission : forall s0 ops h in_amt in_cltv out_amt out_cltv,
  cfg_inv s0 ->
  let s := cfg_run s0 ops in
  htlc_satisfies_config s in_amt in_cltv out_amt out_cltv = ROk tt ->
  h_check_incoming_htlc_cltv h out_cltv in_cltv MIN_CLTV_EXPIRY_DELTA = ROk tt ->
  exists c,
    (c = cs_cur s \/ exists n, cs_prev s = Some (c, n) /\ 0 <= n < EXPIRE_PREV_CONFIG_TICKS) /\
    out_amt + adv_fee c out_amt <= in_amt /\
    out_cltv + fc_delta c <= in_cltv /\
    MIN_CLTV_EXPIRY_DELTA <= fc_delta c /\
    out_cltv + MIN_CLTV_EXPIRY_DELTA <= in_cltv /\
    in_cltv > h + HTLC_FAIL_BACK_BUFFER /\ out_cltv > h + LATENCY_GRACE_PERIOD_BLOCKS.
Proof. exact admission. Qed.

Theorem C02_admission_complete : forall s in_amt in_cltv out_amt out_cltv c,
  0 <= out_amt ->
  (c = cs_cur s \/ exists n, cs_prev s = Some (c, n)) ->
  out_amt * fc_prop c < 2 ^ 64 -> adv_fee c out_amt < 2 ^ 64 ->
  out_amt + adv_fee c out_amt <= in_amt -> out_cltv + fc_delta c <= in_cltv ->
  htlc_satisfies_config s in_amt in_cltv out_amt out_cltv = ROk tt.
Proof. exact htlc_satisfies_config_complete. Qed.

Theorem C02_admission_never_pays : forall c in_amt out_amt,
  0 <= fc_prop c -> 0 <= fc_base c -> 0 <= out_amt ->
  out_amt + adv_fee c out_amt <= in_amt ->
  out_amt <= in_amt /\ adv_fee c out_amt <= in_amt - out_amt /\ 0 <= adv_fee c out_amt.
Proof. exact admission_no_loss. Qed.

Theorem C02_unknown_channel_sanity : forall in_amt in_cltv out_amt out_cltv,
  unknown_chan_sanity in_amt in_cltv out_amt out_cltv = ROk tt ->
  out_amt <= in_amt /\ out_cltv + MIN_CLTV_EXPIRY_DELTA <= in_cltv.
Proof. exact unknown_chan_sanity_sound. Qed.

(** Blinded forwards: [amt_to_forward_msat] returns the LARGEST amount whose fee still fits. *)
Theorem C02_amt_to_forward_largest : forall inbound base prop,
  0 <= inbound < 2 ^ 64 -> 0 <= base -> 0 <= prop ->
  match amt_to_forward_msat inbound base prop with
  | Some a => 0 < a /\ gross base prop a <= inbound /\ (forall a', a < a' -> inbound < gross base prop a')
  | None => forall a', 0 < a' -> inbound < gross base prop a'
  end.
Proof. exact amt_to_forward_spec. Qed.

Theorem C02_amt_to_forward_inverts_fee : forall base prop a,
  0 < a -> 0 <= base -> 0 <= prop -> gross base prop a < 2 ^ 64 ->
  amt_to_forward_msat (gross base prop a) base prop = Some a.
Proof. exact amt_to_forward_inverts. Qed.

Theorem C02_amt_to_forward_no_panic : forall inbound base prop,
  in_u 64 inbound = true -> in_u 32 base = true -> in_u 32 prop = true ->
  amt_to_forward_msat_safe inbound base prop = true.
Proof. exact amt_to_forward_safe. Qed.

Theorem C02_blinded_admission : forall in_amt in_cltv base prop delta hmin maxc out_amt out_cltv,
  0 <= in_amt < 2 ^ 64 -> 0 <= base -> 0 <= prop -> 0 <= delta ->
  check_blinded_forward in_amt in_cltv base prop delta hmin maxc = Some (out_amt, out_cltv) ->
  0 < out_amt /\ out_amt + (out_amt * prop / 1000000 + base) <= in_amt /\
  (forall a', out_amt < a' -> in_amt < a' + (a' * prop / 1000000 + base)) /\
  out_cltv + delta = in_cltv /\ 0 <= out_cltv /\ hmin <= in_amt /\ in_cltv <= maxc /\
  (out_amt * prop < 2 ^ 64 ->
   internal_htlc_satisfies_config in_amt in_cltv out_amt out_cltv
     {| fc_prop := prop; fc_base := base; fc_delta := delta |} = ROk tt).
Proof. exact blinded_forward_sound. Qed.

(** Non-vacuity. *)
Example C02_admission_nonvacuous :
  let s0 := {| cs_cur := {| fc_prop := 0; fc_base := 1000; fc_delta := 48 |}; cs_prev := None |} in
  let ops := [OpUpdate {| fc_prop := 1000; fc_base := 5; fc_delta := 60 |}; OpTick; OpTick] in
  cfg_inv s0 /\
  cs_prev (cfg_run s0 ops) = Some ({| fc_prop := 0; fc_base := 1000; fc_delta := 48 |}, 2) /\
  (* satisfies only the previous config *)
  htlc_satisfies_config (cfg_run s0 ops) 2000000 800 1999000 752 = ROk tt /\
  internal_htlc_satisfies_config 2000000 800 1999000 752 (cs_cur (cfg_run s0 ops)) = RErr "FeeInsufficient" /\
  h_check_incoming_htlc_cltv 700 752 800 MIN_CLTV_EXPIRY_DELTA = ROk tt.
Proof. vm_compute. repeat split; try discriminate; reflexivity. Qed.

Example C02_amt_to_forward_examples :
  amt_to_forward_msat 1000 10 1000 = Some 990 /\
  amt_to_forward_msat 10 10 1000 = None /\
  amt_to_forward_msat 11 10 1000 = Some 1 /\
  amt_to_forward_msat (2 ^ 64 - 1) 0 0 = Some (2 ^ 64 - 1) /\
  check_blinded_forward 1000 500 10 1000 40 1 600 = Some (990, 460).
Proof. vm_compute. repeat split; reflexivity. Qed.
