(** C07 -- After a unilateral close every entitled output is recovered, validly and in time.
    Only statements closed by [exact]; proofs are in Proofs/C07*.v. See design/C07.md for what each
    theorem covers and what is validated at run time only.

    Arithmetic layer (this section): all definitions named here are regenerated from the Rust
    source by rs2v on every run ([Gen/Package.v], [Gen/CltvChecks.v], [Gen/Consts.v],
    [Gen/PackageFeerate.v]) except [get_height_timer]
    ([Model/PackageTimer.v], hand transliteration of the input walk around the generated closure
    [timer_for_target_conf]). *)
Require Import LdkV.Prim.U64 LdkV.Prim.Rs2vLib LdkV.Gen.Consts LdkV.Gen.Package LdkV.Gen.CltvChecks
  LdkV.Gen.PackageFeerate LdkV.Model.PackageTimer LdkV.Proofs.C07Fee.
Open Scope Z_scope.

(** [feerate_bump]: feerate never decreases; either a plain re-broadcast (same feerate, same
    computed fee) or the new fee is at least previous fee + incremental relay fee (BIP-125 rules
    3/4), the reported feerate is what that fee pays, the claim output stays at/above dust.
    For all weights [W0 = 8 <= w <= 4e6], amounts up to 21e6 BTC, [p * w <= 2^63]. *)
Theorem C07_fee_monotone : forall w amt dust p strat sweep fee' rate',
  fb_in_range w amt dust p sweep ->
  feerate_bump w amt dust p strat sweep = Some (fee', rate') ->
  p <= rate' /\
  ((fee' = prev_fee p w /\ rate' = p) \/
   (prev_fee p w + min_relay_fee w <= fee' /\ rate' = fee' * 1000 / w /\ dust <= sat_sub amt fee')) /\
  (strat = FeerateStrategy_RetryPrevious -> fee' = prev_fee p w /\ rate' = p) /\
  (strat = FeerateStrategy_ForceBump -> prev_fee p w + min_relay_fee w <= fee').
Proof. exact fee_bump_some. Qed.

(** [None] only because the affordable feerate is under the floor or the output would be dust. *)
Theorem C07_fee_bump_none_iff : forall w amt dust p strat sweep,
  feerate_bump w amt dust p strat sweep = None <->
  (affordable_rate amt w sweep < FEERATE_FLOOR_SATS_PER_KW \/
   exists nf nr cf cr,
     compute_fee_from_spent_amounts amt w sweep = Some (nf, nr) /\
     candidate w p strat nf nr = (cf, cr) /\ cr <> p /\
     sat_sub amt (Z.max cf (prev_fee p w + min_relay_fee w)) < dust).
Proof. exact fee_bump_none. Qed.

(** No overflow, no division by zero, and [debug_assert!(new_feerate >= previous_feerate)] holds. *)
Theorem C07_fee_bump_no_panic : forall w amt dust p strat sweep,
  fb_in_range w amt dust p sweep -> feerate_bump_safe w amt dust p strat sweep = true.
Proof. exact fee_bump_safe. Qed.

(** First broadcast: feerate between the floor and the estimate, never more than half the claimed
    value in fees. *)
Theorem C07_first_fee_capped : forall amt w sweep fee rate,
  0 < w -> 0 <= amt -> 0 <= sweep ->
  compute_fee_from_spent_amounts amt w sweep = Some (fee, rate) ->
  rate = affordable_rate amt w sweep /\ FEERATE_FLOOR_SATS_PER_KW <= rate /\ rate <= sweep /\
  fee = rate * w / 1000 /\ fee <= amt / 2.
Proof. exact cs_spec. Qed.

(** Any trajectory of strategies and fee estimates after a first broadcast: see [chain_ok]. *)
Theorem C07_fee_trajectory : forall w amt dust steps f r,
  W0 <= w <= MAX_WEIGHT -> 0 <= amt <= MAX_MONEY_SAT -> 0 < dust < 2 ^ 63 ->
  0 <= r -> r * w <= MAX_PREV_RATE_X_WEIGHT -> fee_tracked w f r ->
  steps_in_range steps ->
  chain_ok w f r (bumps w amt dust r steps).
Proof. exact trajectory. Qed.

Theorem C07_fee_rates_sorted : forall w l f r, chain_ok w f r l -> rates_sorted r l.
Proof. exact chain_ok_sorted. Qed.

Theorem C07_first_broadcast_tracked : forall amt w sweep f r,
  0 < w -> 0 <= amt -> 0 <= sweep ->
  compute_fee_from_spent_amounts amt w sweep = Some (f, r) -> fee_tracked w f r.
Proof. exact first_broadcast_tracked. Qed.

(** The absolute fee of a pure re-broadcast is NOT monotone to the satoshi (rounding of the recorded
    feerate); replayed on the real function by the check. *)
Theorem C07_rebroadcast_fee_exact_refuted :
  exists w amt dust f0 r0 f1 r1 f2 r2,
    compute_fee_from_spent_amounts amt w 500 = Some (f0, r0) /\
    feerate_bump w amt dust r0 FeerateStrategy_ForceBump 500 = Some (f1, r1) /\
    feerate_bump w amt dust r1 FeerateStrategy_RetryPrevious 500 = Some (f2, r2) /\
    r2 = r1 /\ f2 < f1 /\ fb_in_range w amt dust r1 500.
Proof. exact rebroadcast_can_dip. Qed.

Theorem C07_package_feerate : forall prev strat est,
  0 <= prev -> FEERATE_FLOOR_SATS_PER_KW <= est -> est * 5 < 2 ^ 32 ->
  compute_package_feerate_safe prev strat est = true /\
  0 <= compute_package_feerate prev strat est < 2 ^ 32 /\
  (prev = 0 -> compute_package_feerate prev strat est = est) /\
  (prev <> 0 -> Z.min prev (2 ^ 32 - 1) <= compute_package_feerate prev strat est) /\
  (prev <> 0 -> strat = FeerateStrategy_RetryPrevious ->
     compute_package_feerate prev strat est = Z.min prev (2 ^ 32 - 1)) /\
  (prev <> 0 -> strat <> FeerateStrategy_RetryPrevious -> est <= compute_package_feerate prev strat est).
Proof. exact package_feerate_spec. Qed.

Theorem C07_height_timer : forall inputs csh cur,
  let ht := get_height_timer inputs csh cur in
  cur < ht /\ cur + HIGH_FREQUENCY_BUMP_INTERVAL <= ht <= cur + LOW_FREQUENCY_BUMP_INTERVAL /\
  (forall i t, In i inputs -> target_conf csh i = Some t ->
     (t <= cur + MIDDLE_FREQUENCY_BUMP_INTERVAL -> ht = cur + HIGH_FREQUENCY_BUMP_INTERVAL) /\
     (t <= cur + LOW_FREQUENCY_BUMP_INTERVAL -> ht <= cur + MIDDLE_FREQUENCY_BUMP_INTERVAL)) /\
  (In HolderFunding inputs -> ht = cur + HIGH_FREQUENCY_BUMP_INTERVAL).
Proof. exact height_timer_spec. Qed.

Theorem C07_height_timer_no_panic : forall inputs csh cur,
  0 <= cur -> cur + LOW_FREQUENCY_BUMP_INTERVAL < 2 ^ 32 ->
  Forall (fun i => match i with
                   | CounterpartyReceivedHTLC e | HolderHTLCTimeout e => e + MIN_CLTV_EXPIRY_DELTA < 2 ^ 32
                   | _ => True end) inputs ->
  get_height_timer_safe inputs csh cur = true.
Proof. exact height_timer_safe. Qed.

Theorem C07_threshold : forall h kind tsd csv,
  h + ANTI_REORG_DELAY - 1 <= confirmation_threshold h kind tsd csv /\
  (kind = OnchainEventKind_MaturingDelayedPaymentOutput -> h + tsd - 1 <= confirmation_threshold h kind tsd csv) /\
  (forall c, kind = OnchainEventKind_SpendConfirmation -> csv = Some c ->
     h + c - 1 <= confirmation_threshold h kind tsd csv) /\
  (1 <= h -> 0 <= tsd < 2 ^ 16 -> (forall c, csv = Some c -> 0 <= c < 2 ^ 16) -> h + 2 ^ 16 < 2 ^ 32 ->
     confirmation_threshold_safe h kind tsd csv = true).
Proof. exact threshold_spec. Qed.

(** Non-vacuity: the values of the library's own unit test are in range and behave as stated. *)
Example C07_in_range_example : fb_in_range 1000 1052 546 253 253.
Proof. unfold fb_in_range. vm_compute. repeat split; intros; discriminate. Qed.
Example C07_bump_example :
  feerate_bump 1000 1052 546 253 FeerateStrategy_ForceBump 253 = Some (506, 506) /\
  feerate_bump 1000 1051 546 253 FeerateStrategy_ForceBump 253 = None /\
  feerate_bump 1000 100000 546 300 FeerateStrategy_HighestOfPreviousOrNew 253 = Some (300, 300).
Proof. vm_compute. repeat split. Qed.
Example C07_trajectory_example :
  bumps 1200 1000000 546 500
    [(FeerateStrategy_ForceBump, 500); (FeerateStrategy_RetryPrevious, 500); (FeerateStrategy_HighestOfPreviousOrNew, 2000)]
  = [(903, 752); (902, 752); (2400, 2000)].
Proof. vm_compute. reflexivity. Qed.
Example C07_timer_example :
  get_height_timer [CounterpartyOfferedHTLC 110; CounterpartyReceivedHTLC 90] 0 100 = 103 /\
  get_height_timer [CounterpartyOfferedHTLC 102] 0 100 = 101.
Proof. vm_compute. split; reflexivity. Qed.

(** * Claim coverage, finality, conservation (hand model Model/OnchainClaims.v, trace-validated) *)
Require Import LdkV.Model.OnchainClaims LdkV.Proofs.C07Claims LdkV.Proofs.C07Conserve.

(** Exactly the entitled HTLC outputs get a claim, of the right kind: every non-dust HTLC the node
    offered (by timeout), every non-dust HTLC offered to it whose preimage it knows (by preimage) --
    and nothing else (no dust, no inbound HTLC without preimage). *)
Theorem C07_entitled_claimed : forall h known,
  (forall k, claim_request h known = Some k <->
     h_output h = true /\
     ((h_outbound h = true /\ k = ByTimeout) \/ (h_outbound h = false /\ known = true /\ k = ByPreimage))) /\
  (claim_request h known = None <->
     h_output h = false \/ (h_outbound h = false /\ known = false)).
Proof. exact claim_request_spec. Qed.

(** A claim requested at height [req] is released exactly from [first_broadcast] on (a timeout claim
    from max(req, expiry), a preimage claim at once); whenever released its nLockTime is at most the
    current height (final in the next block); a timeout claim never precedes the expiry. *)
Theorem C07_final_when_broadcast : forall s k h req cur,
  0 <= req <= cur -> 0 <= h_expiry h ->
  (claim_released s k h cur = true <-> first_broadcast k h req <= cur) /\
  (claim_released s k h cur = true -> claim_locktime s k h cur <= cur) /\
  (k = ByTimeout -> claim_released s k h cur = true -> h_expiry h <= cur /\ h_expiry h <= claim_locktime s k h cur) /\
  (k = ByPreimage -> claim_released s k h cur = true).
Proof. exact released_spec. Qed.

Theorem C07_claim_locktime_no_panic : forall s k h, package_locktime_safe [claim_input s k h] = true.
Proof. exact claim_locktime_safe. Qed.

(** What is announced as spendable is buried by ANTI_REORG_DELAY and, if CSV-delayed by [dd], has [dd]
    confirmations in the next block. *)
Theorem C07_spendable_when_final : forall h g src d,
  let e := mkEntry h (EvMaturing g src d) in
  h + ANTI_REORG_DELAY - 1 <= threshold e /\
  (forall dd, d = Some dd -> h + dd <= threshold e + 1).
Proof. exact maturing_final. Qed.

(** For every closure state, every set of preimages known at the close, every well-formed sequence of
    blocks (any spends of HTLC outputs by either side, in any order, any delays) and late preimages:
    counted balances + gross value handed out as SpendableOutputs + value irrevocably taken by the
    counterparty = main balance + every HTLC the node could win. *)
Theorem C07_balances_conserve : forall c k0 ops,
  wf c k0 ops ->
  let st := run c k0 ops in
  balance_total c st + spendable_total st + lost_total c ops st = owed_total c st.
Proof. exact balances_conserve. Qed.

Theorem C07_balances_drained : forall c k0 ops,
  wf c k0 ops -> balances c (run c k0 ops) = [] ->
  spendable_total (run c k0 ops) + lost_total c ops (run c k0 ops) = owed_total c (run c k0 ops).
Proof. exact balances_drained. Qed.

(** The duplicate filter of [update_claims_view_from_requests] keeps the in-flight outpoints
    duplicate-free for ANY stream of requests as long as no requests are aggregated ... *)
Theorem C07_no_duplicate_claims_partial : forall reqs,
  NoDup (in_flight (add_all (mkView [] []) reqs)).
Proof. exact no_duplicates_from_empty. Qed.

(** ... and fails with aggregation (finding C07-F2; the check replays it on the real monitor). *)
Theorem C07_no_duplicate_claims_refuted :
  let v1 := add_requests (mkView [] []) 13 83 [4; 6] in
  let v2 := add_requests v1 24 83 [4; 6] in
  NoDup (in_flight v1) /\ in_flight v2 = [4; 6; 4; 6] /\ ~ NoDup (in_flight v2).
Proof. exact duplicates_after_aggregation. Qed.

(** Non-vacuity: a counterparty close with four HTLCs; the peer takes HTLC 0 with the preimage, the
    node claims HTLC 1, learns the preimage of HTLC 3 too late. *)
Definition ex_closure := mkClosure CounterpartyTx 100 5000 144
  [mkHtlc true 3000 150 true 1; mkHtlc false 4000 160 true 2; mkHtlc false 2 155 false 3; mkHtlc false 1000 170 true 4].
Definition ex_ops : list op :=
  [OpBlock true [mkSpend 0 false true]; OpBlock true []; OpBlock true [mkSpend 1 true true]] ++ repeat (OpBlock true []) 5 ++
  [OpPreimage 3%nat] ++ repeat (OpBlock true []) 70 ++ [OpBlock true [mkSpend 3 false false]] ++ repeat (OpBlock true []) 6.
Example C07_wf_example : wf ex_closure [1%nat] ex_ops.
Proof.
  unfold wf. split; [vm_compute; discriminate|]. split; [vm_compute; discriminate|]. split.
  - unfold ex_ops, ex_closure. cbn [app repeat ops_ok].
    repeat (split; [first [apply Forall_nil | apply Forall_cons; [|apply Forall_nil]]|]); try exact I;
      eexists; (split; [reflexivity|]); unfold spend_ok; cbn; repeat split; intros; try discriminate; try reflexivity.
  - vm_compute. repeat constructor; cbn; intuition discriminate.
Qed.
Example C07_conserve_example :
  let st := run ex_closure [1%nat] ex_ops in
  best st = 185 /\ balances ex_closure st = [] /\ spendable_total st = 9000 /\
  lost_total ex_closure ex_ops st = 4000 /\ owed_total ex_closure st = 13000.
Proof. vm_compute. repeat split. Qed.
Example C07_release_example :
  claim_released CounterpartyTx ByTimeout (mkHtlc true 3000 150 true 1) 149 = false /\
  claim_released CounterpartyTx ByTimeout (mkHtlc true 3000 150 true 1) 150 = true /\
  claim_locktime HolderTx ByTimeout (mkHtlc true 3000 150 true 1) 160 = 150.
Proof. vm_compute. repeat split. Qed.

(** * Claims are per output, whatever the payment hashes *)

Theorem C07_entitled_claimed_per_outpoint : forall c st i,
  In i (claiming c st) <->
  exists h, nth_error (c_htlcs c) i = Some h /\ spent_b st i = false /\
            exists k, claim_request h (knows st i) = Some k /\ claim_released (c_side c) k h (best st) = true.
Proof. exact claiming_spec. Qed.

Theorem C07_claims_no_duplicate_outpoint : forall c st, NoDup (claiming c st).
Proof. exact claiming_nodup. Qed.

(** After the preimage of hash [H] is provided (at any point of any history), EVERY inbound non-dust HTLC
    carrying [H] whose output is unspent is being claimed -- not just the first one. *)
Theorem C07_same_hash_all_claimed : forall c k0 ops H i h,
  0 <= c_height c ->
  nth_error (c_htlcs c) i = Some h -> h_hash h = H -> h_output h = true -> h_outbound h = false ->
  spent_b (run c k0 (ops ++ learn c H)) i = false ->
  In i (claiming c (run c k0 (ops ++ learn c H))).
Proof. exact same_hash_all_claimed. Qed.

Example C07_mpp_example :
  let c := mkClosure CounterpartyTx 100 5000 144 [mkHtlc false 3000 150 true 7; mkHtlc true 900 160 true 8; mkHtlc false 4000 150 true 7; mkHtlc false 2500 150 true 7] in
  claiming c (run c [] [OpBlock true []]) = [] /\
  claiming c (run c [] ([OpBlock true []] ++ learn c 7)) = [0%nat; 2%nat; 3%nat] /\
  claiming c (run c [] ([OpBlock true []] ++ learn c 7 ++ [OpBlock true [mkSpend 2 true true]] ++ repeat (OpBlock true []) 60)) = [0%nat; 1%nat; 3%nat].
Proof. vm_compute. repeat split. Qed.

(** Funding scopes: with a splice negotiated, confirmed, but not locked, the monitor holds several
    scopes whose commitments pay this node different amounts. The balance it reports for its own output
    of the confirmed commitment is the value of that output in the commitment of the scope the
    confirmed commitment spends: the current scope when no alternative funding is recorded, the
    recorded pending scope otherwise -- for every side and every list of pending scopes. *)
Theorem C07_balance_is_output_of_spent_scope : forall sd h csv hs current pending st,
  (forall b, In b (main_balance (closure_in sd h csv hs current pending None) st) -> b = BalAwaiting (scope_main sd current)) /\
  (forall s, In s pending -> NoDup (map s_funding pending) ->
     forall b, In b (main_balance (closure_in sd h csv hs current pending (Some (s_funding s))) st) ->
               b = BalAwaiting (scope_main sd s)).
Proof. exact main_balance_of_spent_scope. Qed.

Theorem C07_confirmed_scope_is_recorded_one : forall current pending s,
  In s pending -> NoDup (map s_funding pending) ->
  confirmed_scope current pending (Some (s_funding s)) = s.
Proof. exact confirmed_scope_pending. Qed.

(** a splice-in of 50 000 sat by this node, confirmed and not locked: its holder commitment on the new
    funding pays it 149 058, the one on the original funding 99 056 *)
Example C07_scope_example :
  let cur := mkScope 1 99056 0 in
  let spl := mkScope 2 149058 0 in
  c_main (closure_in HolderTx 100 144 [] cur [spl] (Some 2)) = 149058 /\
  c_main (closure_in HolderTx 100 144 [] cur [spl] None) = 99056.
Proof. vm_compute. split; reflexivity. Qed.
