(** C18 — Payment requests round-trip and cannot be forged or altered.
    Only theorem statements closed by [exact]; proofs are in Proofs/C18*.v.  Symbols ("fes") are
    integers in [0,32), bytes integers in [0,256), strings lists of code points. *)
Require Import LdkV.Prim.U64.
Require Import LdkV.Model.Bech32 LdkV.Model.Bolt11 LdkV.Model.Bolt12Merkle LdkV.Model.OfferMeta LdkV.Model.Bolt12Exec.
Require Import LdkV.Proofs.C18Bech32 LdkV.Proofs.C18Bits LdkV.Proofs.C18Bolt11 LdkV.Proofs.C18Merkle LdkV.Proofs.C18Meta.
Require Import LdkV.Crypto.Bytes LdkV.Crypto.Sha256 LdkV.Crypto.Hmac.
Open Scope Z_scope.

(** ** bech32: 8 <-> 5 bit regrouping, any length *)

Theorem C18_bits_roundtrip : forall bs, forallb byte_okb bs = true ->
  from_u5_lax (to_u5 bs) = bs /\ from_u5_strict (to_u5 bs) = Some bs.
Proof. exact bits_roundtrip_both. Qed.

Theorem C18_bits_padding : forall bs,
  exists pad, 0 <= pad <= 4 /\
    Z.of_nat (List.length (to_u5 bs)) * 5 = 8 * Z.of_nat (List.length bs) + pad /\
    padding_ok (to_u5 bs) = ROk tt.
Proof. exact bits_padding. Qed.

Theorem C18_bits_strict_rejects : forall fes bs, from_u5_strict fes = Some bs ->
  fes = [] \/
  ((Z.of_nat (List.length fes) * 5) mod 8 <= 4 /\
   Z.land (last fes 0) (Z.ones ((Z.of_nat (List.length fes) * 5) mod 8)) = 0).
Proof. exact strict_rejects. Qed.

(** ** bech32 checksum: strings of ANY length *)

(** Replacing exactly one symbol of the data part (payload or checksum position) of a valid
    string by a different symbol makes the checksum fail. *)
Theorem C18_checksum_single_error : forall h pre a b post,
  hrp_chars_ok h = true ->
  forallb fe_ok (pre ++ a :: post) = true -> fe_ok b = true -> a <> b ->
  verify_checksum h (pre ++ a :: post) = true ->
  verify_checksum h (pre ++ b :: post) = false.
Proof. exact checksum_single_error. Qed.

(** Replacing one character of the human-readable part (which the crate limits to 83 characters)
    by a character that is not merely its other-case form makes the checksum fail. *)
Theorem C18_checksum_hrp_char : forall hp c c' hs data,
  hrp_chars_ok (hp ++ c :: hs) = true -> (33 <=? c') && (c' <=? 126) = true ->
  (List.length (hp ++ c :: hs) <= 83)%nat ->
  to_lower c <> to_lower c' -> forallb fe_ok data = true ->
  verify_checksum (hp ++ c :: hs) data = true ->
  verify_checksum (hp ++ c' :: hs) data = false.
Proof. exact checksum_hrp_char. Qed.

(** The checksum the encoder appends verifies. *)
Theorem C18_checksum_roundtrip : forall h data,
  hrp_chars_ok h = true -> forallb fe_ok data = true ->
  verify_checksum h (data ++ create_checksum h data) = true.
Proof. exact checksum_roundtrip. Qed.

(** ** BOLT 11 data part *)

Theorem C18_tagged_roundtrip : forall fs, forallb field_ok fs = true ->
  parse_fields (ser_fields fs) = ROk fs.
Proof. exact fields_roundtrip. Qed.

Theorem C18_data_roundtrip : forall ts fs, 0 <= ts < 2 ^ 35 -> forallb field_ok fs = true ->
  parse_data (ser_data ts fs) = ROk (ts, fs).
Proof. exact data_roundtrip. Qed.

Theorem C18_int_roundtrip : forall x, 0 <= x < 2 ^ 64 -> parse_int_be 64 (encode_int_be x) = Some x.
Proof. exact encode_int_roundtrip. Qed.

(** ** BOLT 11 amount in the human-readable part *)

Theorem C18_amount_roundtrip : forall c msat h,
  0 <= msat -> build_amount c msat = ROk h ->
  parse_hrp (print_hrp h) = ROk h /\ amount_msat h = Some msat /\ check_amount h = true.
Proof. exact amount_roundtrip. Qed.

Theorem C18_amount_precision : forall h p,
  amount_pico_btc h = Some p -> p mod 10 <> 0 -> check_amount h = false.
Proof. exact imprecise_amount_rejected. Qed.

(** ** BOLT 11 signature: the key an accepted invoice names (explicit [n] field or recovered)
    verifies the signature over exactly SHA-256(hrp ‖ bytes of the timestamp and fields). *)
Theorem C18_signed_content :
  forall (hash pubkey : Type) (sha : list Z -> hash) (verify : hash -> list Z -> pubkey -> bool)
         (recover : hash -> list Z -> Z -> option pubkey) (decode_pk : list Z -> option pubkey),
  (forall h sg rid pk, recover h sg rid = Some pk -> verify h sg pk = true) ->
  forall s : signed_raw,
    check_signature hash pubkey sha verify recover decode_pk s = true ->
    exists pk,
      payee_pub_key hash pubkey sha recover decode_pk s = Some pk /\
      verify (sha (signable_bytes (print_hrp (sr_hrp s)) (ser_data (sr_ts s) (sr_fields s)))) (sr_sig s) pk = true.
Proof. exact signed_content. Qed.

(** The field list may contain any number of [n] fields (and fields of tag 19 with another length):
    the FIRST 53-symbol one is the key the signature is checked against AND the key reported. *)
Theorem C18_signed_content_first_n :
  forall (hash pubkey : Type) (sha : list Z -> hash) (verify : hash -> list Z -> pubkey -> bool)
         (recover : hash -> list Z -> Z -> option pubkey) (decode_pk : list Z -> option pubkey)
         (s : signed_raw) pre d post pk,
    sr_fields s = pre ++ (TAG_PAYEE_PUB_KEY, d) :: post -> List.length d = 53%nat ->
    (forall f, In f pre -> is_payee_field f = false) -> decode_pk d = Some pk ->
    check_signature hash pubkey sha verify recover decode_pk s = true ->
    payee_pub_key hash pubkey sha recover decode_pk s = Some pk /\
    verify (sha (signable_bytes (print_hrp (sr_hrp s)) (ser_data (sr_ts s) (sr_fields s)))) (sr_sig s) pk = true.
Proof. exact signed_content_first_n. Qed.

Theorem C18_signed_content_recovered :
  forall (hash pubkey : Type) (sha : list Z -> hash) (verify : hash -> list Z -> pubkey -> bool)
         (recover : hash -> list Z -> Z -> option pubkey) (decode_pk : list Z -> option pubkey)
         (s : signed_raw),
    (forall f, In f (sr_fields s) -> is_payee_field f = false) ->
    check_signature hash pubkey sha verify recover decode_pk s = true ->
    exists pk, recover (signable_hash hash sha s) (sr_sig s) (sr_rid s) = Some pk /\
               payee_pub_key hash pubkey sha recover decode_pk s = Some pk.
Proof. exact signed_content_recovered. Qed.

(** the signed symbols determine timestamp and fields *)
Theorem C18_signed_data_injective : forall ts fs ts' fs',
  0 <= ts < 2 ^ 35 -> 0 <= ts' < 2 ^ 35 -> forallb field_ok fs = true -> forallb field_ok fs' = true ->
  ser_data ts fs = ser_data ts' fs' -> ts = ts' /\ fs = fs'.
Proof. exact ser_data_inj. Qed.

(** ** BOLT 12 merkle root and signature digest *)

Theorem C18_merkle_injective : forall H : bytes -> bytes,
  (forall m, List.length (H m) = 32%nat) -> (forall a b, H a = H b -> a = b) ->
  forall rs rs' h,
    ascending (map ty_of rs) = true -> ascending (map ty_of rs') = true ->
    root_hash H rs = Some h -> root_hash H rs' = Some h ->
    non_sig rs = non_sig rs'.
Proof. exact merkle_injective. Qed.

Theorem C18_digest_binds_records : forall H : bytes -> bytes,
  (forall m, List.length (H m) = 32%nat) -> (forall a b, H a = H b -> a = b) ->
  forall tag tag' rs rs' root root',
    ascending (map ty_of rs) = true -> ascending (map ty_of rs') = true ->
    root_hash H rs = Some root -> root_hash H rs' = Some root' ->
    sig_digest H tag root = sig_digest H tag' root' ->
    tag = tag' /\ non_sig rs = non_sig rs'.
Proof. exact digest_binds_records. Qed.

(** ** BOLT 12 stateless metadata *)

Theorem C18_metadata_bound : forall (hmac : bytes -> bytes -> bytes) (pk_of_sk : bytes -> bytes) key md iv pk recs,
  verify_recipient_metadata hmac pk_of_sk key md iv pk recs <> VErr ->
  (List.length md = 48%nat /\
   skipn 16 md = hmac key ((iv ++ firstn 16 md ++ List.concat recs ++ DERIVED_METADATA_HMAC_INPUT)
                            ++ WITHOUT_ENCRYPTED_PAYMENT_ID_HMAC_INPUT)) \/
  (List.length md = 16%nat /\
   pk = pk_of_sk (hmac key ((iv ++ firstn 16 md ++ List.concat recs ++ DERIVED_METADATA_AND_KEYS_HMAC_INPUT)
                            ++ WITHOUT_ENCRYPTED_PAYMENT_ID_HMAC_INPUT))).
Proof. exact recipient_metadata_bound. Qed.

Theorem C18_payer_metadata_bound : forall (hmac : bytes -> bytes -> bytes) (pk_of_sk : bytes -> bytes) key md iv pk recs,
  verify_payer_metadata hmac pk_of_sk key md iv pk recs <> VErr ->
  let enc := firstn 32 md in let rest := skipn 32 md in
  (List.length rest = 48%nat /\
   skipn 16 rest = hmac key ((iv ++ firstn 16 rest ++ List.concat recs ++ DERIVED_METADATA_HMAC_INPUT)
                              ++ WITH_ENCRYPTED_PAYMENT_ID_HMAC_INPUT ++ enc)) \/
  (List.length rest = 16%nat /\
   pk = pk_of_sk (hmac key ((iv ++ firstn 16 rest ++ List.concat recs ++ DERIVED_METADATA_AND_KEYS_HMAC_INPUT)
                              ++ WITH_ENCRYPTED_PAYMENT_ID_HMAC_INPUT ++ enc))).
Proof. exact payer_metadata_bound. Qed.

Theorem C18_metadata_roundtrip : forall (hmac : bytes -> bytes -> bytes) (pk_of_sk : bytes -> bytes),
  (forall k m, List.length (hmac k m) = 32%nat) ->
  forall key iv nonce enc pk recs, List.length nonce = 16%nat -> List.length enc = 32%nat ->
    verify_recipient_metadata hmac pk_of_sk key (derive_metadata hmac key iv nonce None recs) iv pk recs = VOkMetadata /\
    verify_payer_metadata hmac pk_of_sk key (derive_metadata hmac key iv nonce (Some enc) recs) iv pk recs = VOkMetadata.
Proof. exact metadata_roundtrip_both. Qed.

(** Metadata derived by an originator for its records under its key verifies only for that key
    and those record bytes (collision-free MAC as an explicit premise). *)
Theorem C18_metadata_altered_refused : forall (hmac : bytes -> bytes -> bytes) (pk_of_sk : bytes -> bytes),
  (forall k m, List.length (hmac k m) = 32%nat) ->
  (forall k m k' m', hmac k m = hmac k' m' -> k = k' /\ m = m') ->
  forall key iv nonce enc recs key' pk recs', List.length nonce = 16%nat -> List.length enc = 32%nat ->
    (verify_recipient_metadata hmac pk_of_sk key' (derive_metadata hmac key iv nonce None recs) iv pk recs' <> VErr ->
       key' = key /\ List.concat recs' = List.concat recs) /\
    (verify_payer_metadata hmac pk_of_sk key' (derive_metadata hmac key iv nonce (Some enc) recs) iv pk recs' <> VErr ->
       key' = key /\ List.concat recs' = List.concat recs).
Proof. exact metadata_altered_refused_both. Qed.

Theorem C18_metadata_derived_keys_refused : forall (hmac : bytes -> bytes -> bytes) (pk_of_sk : bytes -> bytes),
  (forall k m, List.length (hmac k m) = 32%nat) ->
  (forall k m k' m', hmac k m = hmac k' m' -> k = k' /\ m = m') ->
  (forall a b, pk_of_sk a = pk_of_sk b -> a = b) ->
  forall key iv nonce recs key' recs', List.length nonce = 16%nat ->
    let '(md, sk) := derive_metadata_and_keys hmac key iv nonce None recs in
    verify_recipient_metadata hmac pk_of_sk key' md iv (pk_of_sk sk) recs' <> VErr ->
    key' = key /\ List.concat recs' = List.concat recs.
Proof. exact altered_refused_recipient_keys. Qed.

(** Derived-key modes (keys from the path nonce, from 16-byte offer metadata, from 48-byte payer
    metadata): the key record is excluded from the MAC, so acceptance means that the record's bytes
    are the FULL encoding of the derived public key ... *)
Theorem C18_metadata_derived_key_binds_record :
  forall (hmac : bytes -> bytes -> bytes) (pk_of_sk : bytes -> bytes) key nonce rs,
  List.length nonce = 16%nat ->
  offer_verify_using_recipient_data hmac pk_of_sk key nonce rs <> VErr ->
  find_record 22 rs =
    Some (pk_of_sk (hmac key ((IV_OFFER_WITHOUT_METADATA ++ firstn 16 nonce
                                 ++ List.concat (offer_records_for_metadata true rs)
                                 ++ DERIVED_METADATA_AND_KEYS_HMAC_INPUT)
                                ++ WITHOUT_ENCRYPTED_PAYMENT_ID_HMAC_INPUT))).
Proof. exact derived_key_binds_offer_record. Qed.

Theorem C18_metadata_derived_key_binds_record_md :
  forall (hmac : bytes -> bytes -> bytes) (pk_of_sk : bytes -> bytes) key rs md,
  find_record 4 rs = Some md -> List.length md = 16%nat ->
  offer_verify_using_metadata hmac pk_of_sk key rs <> VErr ->
  find_record 22 rs =
    Some (pk_of_sk (hmac key ((IV_OFFER_WITH_METADATA ++ firstn 16 md
                                 ++ List.concat (offer_records_for_metadata true rs)
                                 ++ DERIVED_METADATA_AND_KEYS_HMAC_INPUT)
                                ++ WITHOUT_ENCRYPTED_PAYMENT_ID_HMAC_INPUT))).
Proof. exact derived_key_binds_offer_record_md. Qed.

Theorem C18_metadata_derived_payer_key_binds_record :
  forall (hmac : bytes -> bytes -> bytes) (pk_of_sk : bytes -> bytes) key iv rs md,
  find_record 0 rs = Some md -> List.length md = 48%nat ->
  invoice_verify_using_metadata hmac pk_of_sk key iv rs <> VErr ->
  find_record 88 rs =
    Some (pk_of_sk (hmac key ((iv ++ firstn 16 (skipn 32 md)
                                 ++ List.concat (payer_records_for_metadata true rs)
                                 ++ DERIVED_METADATA_AND_KEYS_HMAC_INPUT)
                                ++ WITH_ENCRYPTED_PAYMENT_ID_HMAC_INPUT ++ firstn 32 md))).
Proof. exact derived_key_binds_payer_record. Qed.

(** ... hence a copy of an accepted stream in which only the value of the key record differs (its
    parity byte, or any other bit) is refused. *)
Theorem C18_metadata_issuer_id_alteration_refused :
  forall (hmac : bytes -> bytes -> bytes) (pk_of_sk : bytes -> bytes) key nonce pre r r' post,
  List.length nonce = 16%nat ->
  ty_of r = 22 -> ty_of r' = 22 -> (forall x, In x pre -> ty_of x <> 22) ->
  offer_verify_using_recipient_data hmac pk_of_sk key nonce (pre ++ r :: post) <> VErr ->
  offer_verify_using_recipient_data hmac pk_of_sk key nonce (pre ++ r' :: post) <> VErr ->
  record_value r = record_value r'.
Proof. exact issuer_id_alteration_refused. Qed.

Theorem C18_metadata_payer_id_alteration_refused :
  forall (hmac : bytes -> bytes -> bytes) (pk_of_sk : bytes -> bytes) key iv pre r r' post md,
  find_record 0 (pre ++ r :: post) = Some md -> find_record 0 (pre ++ r' :: post) = Some md -> List.length md = 48%nat ->
  ty_of r = 88 -> ty_of r' = 88 -> (forall x, In x pre -> ty_of x <> 88) ->
  invoice_verify_using_metadata hmac pk_of_sk key iv (pre ++ r :: post) <> VErr ->
  invoice_verify_using_metadata hmac pk_of_sk key iv (pre ++ r' :: post) <> VErr ->
  record_value r = record_value r'.
Proof. exact payer_id_alteration_refused. Qed.

(** ** Non-vacuity: concrete instances of the hypotheses *)

(** BIP-173 vector "bc1qw508d6qejxtdg4y5r3zarvary0c5xw7kv8f3t4": valid; one symbol changed: invalid. *)
Definition ex_data : list Z :=
  [0;14;20;15;7;13;26;0;25;18;6;11;13;8;21;4;20;3;17;2;29;3;12;29;3;4;15;24;20;6;14;30;22;
   12;7;9;17;11;21].
Example C18_ex_checksum_valid : verify_checksum [98; 99] ex_data = true /\ forallb fe_ok ex_data = true
  /\ hrp_chars_ok [98; 99] = true.
Proof. vm_compute. repeat split; reflexivity. Qed.
Example C18_ex_checksum_detects :
  verify_checksum [98; 99] (firstn 10 ex_data ++ 7 :: skipn 11 ex_data) = false
  /\ verify_checksum [116; 99] ex_data = false.
Proof. vm_compute. split; reflexivity. Qed.

(** A three-record BOLT 12 stream (specification vector): ascending, root defined; changing a byte
    of the second record changes the root. *)
Definition ex_stream : list bytes :=
  [bytes_of_hex "010203e8"; bytes_of_hex "02080000010000020003";
   bytes_of_hex "03310266e4598d1d3c415f572a8488830b60f7e744ed9235eb0b1ba93283b315c0351800000000000000010000000000000002"].
Example C18_ex_merkle :
  ascending (map ty_of ex_stream) = true /\
  option_map hex_of_bytes (root_hash sha256 ex_stream) =
    Some "ab2e79b1283b0b31e0b035258de23782df6b89a38cfa7237bde69aed1a658c5d"%string /\
  root_hash sha256 [bytes_of_hex "010203e8"; bytes_of_hex "02080000010000020004"; nth 2 ex_stream []]
    <> root_hash sha256 ex_stream.
Proof. vm_compute. repeat split; try reflexivity. discriminate. Qed.

Example C18_ex_amount :
  match build_amount Bitcoin 250000000 with
  | ROk h => print_hrp h = [108; 110; 98; 99; 50; 53; 48; 48; 117] /\ amount_msat h = Some 250000000
  | RErr _ => False
  end.
Proof. vm_compute. split; reflexivity. Qed.

Example C18_ex_fields :
  forallb field_ok [(1, repeat 3 52); (6, [1; 28]); (13, [])] = true /\
  parse_data (ser_data 1496314658 [(1, repeat 3 52); (6, [1; 28]); (13, [])]) =
    ROk (1496314658, [(1, repeat 3 52); (6, [1; 28]); (13, [])]).
Proof. vm_compute. split; reflexivity. Qed.

(** Path-derived mode with HMAC-SHA256 and the identity as key map: a two-record stream whose
    issuer-id record carries the derived value is accepted; the same stream with the lowest bit of
    the first byte of that record flipped (what a 02<->03 parity change is) is refused. *)
Definition ex_key : bytes := repeat 7 32.
Definition ex_nonce : bytes := repeat 9 16.
Definition ex_offer (v : bytes) : list bytes := [[10; 1; 120]; 22 :: 32 :: v].
Definition ex_issuer : bytes :=
  Hmac.hmac_sha256 ex_key ((IV_OFFER_WITHOUT_METADATA ++ ex_nonce
     ++ List.concat (offer_records_for_metadata true (ex_offer [])) ++ DERIVED_METADATA_AND_KEYS_HMAC_INPUT)
     ++ WITHOUT_ENCRYPTED_PAYMENT_ID_HMAC_INPUT).
Example C18_ex_derived_key_binding :
  offer_verify_using_recipient_data Hmac.hmac_sha256 (fun sk => sk) ex_key ex_nonce (ex_offer ex_issuer) = VOkDerivedKeys ex_issuer /\
  offer_verify_using_recipient_data Hmac.hmac_sha256 (fun sk => sk) ex_key ex_nonce
    (ex_offer (Z.lxor (hd 0 ex_issuer) 1 :: tl ex_issuer)) = VErr.
Proof. vm_compute. split; reflexivity. Qed.
