(** C20 - The chain-sync client keeps listeners on one consistent chain at the best tip.
    Statements only; proofs are in Proofs/C20*.v.  Model: Model/BlockSync.v (lightning-block-sync's
    poll.rs, lib.rs, init.rs); vocabulary: Model/BlockSyncSpec.v.

    All SpvClient theorems hold for ARBITRARY block sources ([src : oracle] is universally quantified
    with no hypothesis): the source may fail transiently or persistently, answer with another header,
    with a header failing proof of work, or with wrong height / chainwork, at any request, and may
    report any block as its best tip at any poll.  The only hypotheses are that the universe of
    headers is well-formed ([wf_tree]) and that the client starts from a truthful tip with a cache of
    truthful headers ([good_client]; established by [SpvClient::new] on a validated header of the
    caller's own chain and an empty cache, and preserved by every poll). *)
Require Import LdkV.Prim.U64 LdkV.Model.BlockSync LdkV.Model.BlockSyncSpec LdkV.Model.ChainWalk.
Require Import LdkV.Proofs.C20Tree LdkV.Proofs.C20 LdkV.Proofs.C20Poll LdkV.Proofs.C20Wf LdkV.Proofs.C20Init LdkV.Proofs.C20Fan LdkV.Proofs.C20Walk LdkV.Proofs.C20More.
Open Scope Z_scope.
Local Open Scope list_scope.

(** [find_difference_from_header] returns the LOWEST common ancestor and the exact ascending list of
    blocks from it to the new tip, every header carrying its true height and chainwork; with fuel
    above the sum of the two true heights it never runs out of fuel - for any source. *)
Theorem C20_difference_correct : forall T src c fuel cur prev n,
  wf_tree T -> Forall (truthful T) c -> genuine T cur -> truthful T prev ->
  (Z.to_nat (th T cur + th T prev) < fuel)%nat ->
  match fst (find_diff fuel T src c cur prev [] n) with
  | DOutOfFuel => False
  | DErr _ => True
  | DOk ca asc =>
      truthful T ca /\ truthful T cur /\ Forall (truthful T) asc /\
      path T (v_hash ca) (v_hash cur) (map v_hash asc) /\
      anc T (v_hash ca) (v_hash prev) /\
      (forall d, anc T d (v_hash cur) -> anc T d (v_hash prev) -> anc T d (v_hash ca))
  end.
Proof. exact difference_correct. Qed.

(** Each poll: the notifications are at most one disconnection (to a proper ancestor of the old tip,
    reported with its true height) followed by connections, each a proof-of-work-valid child of the
    previous block at the next height; replaying them moves the listener from the old stored tip
    exactly to the new stored tip; the client stays good. *)
Theorem C20_notifications_form_chain : forall T src cl n r cl' log n',
  wf_tree T -> good_client T cl ->
  poll_best_tip T src cl n = (r, cl', log, n') ->
  good_client T cl' /\
  lrun T (pos_of (cl_tip cl)) log (pos_of (cl_tip cl')) /\
  one_disc_then_conns log.
Proof. exact notifications_form_chain. Qed.

(** ... over any number of polls (the best tip reported by the source may change arbitrarily between
    and during polls: it is part of the oracle). *)
Theorem C20_poll_sequence : forall T src k cl n cl' log n',
  wf_tree T -> good_client T cl ->
  poll_n T src cl n k = (cl', log, n') ->
  good_client T cl' /\ lrun T (pos_of (cl_tip cl)) log (pos_of (cl_tip cl')).
Proof. exact poll_sequence. Qed.

(** The listeners move only when the source showed a tip with strictly more TRUE chainwork than the
    stored tip, and then only along the chain of that tip; [Common], [Worse], errors, and a [Better]
    tip that could not be acted upon leave listeners, tip and cache untouched (empty log). *)
Theorem C20_more_work_only : forall T src cl n r cl' log n',
  wf_tree T -> good_client T cl ->
  poll_best_tip T src cl n = (r, cl', log, n') ->
  match r with
  | Ok (Better t, moved) =>
      v_cwork (cl_tip cl) < v_cwork t /\
      (moved = false -> cl_tip cl' = cl_tip cl /\ log = []) /\
      (moved = true -> truthful T t /\ anc T (v_hash (cl_tip cl')) (v_hash t))
  | Ok (Worse t, moved) => v_cwork t <= v_cwork (cl_tip cl) /\ moved = false /\ cl' = cl /\ log = []
  | Ok (Common, moved) => moved = false /\ cl' = cl /\ log = []
  | Err _ => cl' = cl /\ log = []
  end.
Proof. exact more_work_only. Qed.

(** Wherever the source fails: the log is a PREFIX of the ideal log (disconnection to the lowest
    common ancestor unless that is the old tip, then every block from it to the new tip in order),
    nothing skipped or repeated, and the tip handed back ([sync_tip]: the new tip on success, the last
    connected block or the fork point on a failed fetch, the old tip otherwise) is exactly where the
    replayed log leaves the listener. *)
Theorem C20_errors_leave_prefix : forall T src c new old n r c' log n',
  wf_tree T -> Forall (truthful T) c -> genuine T new -> truthful T old ->
  sync_listener T src c new old n = (r, c', log, n') ->
  Forall (truthful T) c' /\
  sync_outcome T new old r log /\
  truthful T (sync_tip new old r) /\
  lrun T (pos_of old) log (pos_of (sync_tip new old r)).
Proof. exact errors_leave_prefix. Qed.

(** Invalid headers are refused: [Validate] accepts only the proof-of-work-valid header with the
    requested hash; walking back (through the cache or the poller) accepts a parent only if hash,
    height and chainwork link; and every notification of a poll names a proof-of-work-valid header
    of the universe at its true height. *)
Theorem C20_invalid_refused : forall T,
  wf_tree T ->
  (forall x h w q v, validate_header T x h w q = Ok v ->
     exists nd, T x = Some nd /\ n_pow nd = true /\ x = q /\ v_hash v = q /\ v_prev v = n_prev nd) /\
  (forall src c v n p n', Forall (truthful T) c -> look_up_prev T src c v n = (Ok p, n') ->
     genuine T p /\ v_hash p = v_prev v /\ v_height v = v_height p + 1 /\ v_cwork v = v_cwork p + v_bwork v) /\
  (forall src cl n r cl' log n', good_client T cl -> poll_best_tip T src cl n = (r, cl', log, n') ->
     Forall (fun e => match e with
                      | EConn b h _ => exists nd, T b = Some nd /\ n_pow nd = true /\ h = n_height nd
                      | EDisc f h => exists nd, T f = Some nd /\ h = n_height nd
                      end) log).
Proof. exact invalid_refused. Qed.

(** Start-up synchronisation.  Hypothesis stated explicitly: the source is METADATA-HONEST
    ([honest_meta]: an answer that passes validation for the requested hash carries the true height and
    chainwork; it may still fail or answer with other / invalid headers at any request) - at start-up
    there is no trusted anchor, [synchronize_listeners] is documented for a trusted source - and each
    listener's [BlockLocator] is truthful.  Then every listener's notifications replay from its own
    last block as one valid chain walk, also when the call fails part-way; on success all listeners
    are at the returned tip, which is truthful, and the returned cache holds only truthful headers
    (so [SpvClient::new] on the result is a [good_client]). *)
Theorem C20_init_common_tip : forall T src ls n r logs n',
  wf_tree T -> honest_meta T src -> Forall (locator_ok T) ls ->
  synchronize_listeners T src ls n = (r, logs, n') ->
  Forall2 (fun loc log =>
             exists p, lrun T (l_hash loc, l_height loc) log p /\ one_disc_then_conns log /\
                       match r with Ok (_, tip) => p = pos_of tip | Err _ => True end) ls logs /\
  match r with
  | Ok (c, tip) => good_client T {| cl_tip := tip; cl_cache := c |}
  | Err _ => True
  end.
Proof. exact init_common_tip. Qed.

(** Composed listeners (the [(T, U)] tuple combinator, nested, behind [Deref] wrappers): the composite
    delivers every notification to every component in order, so EACH leaf receives exactly the log the
    composite received - and therefore satisfies every theorem above on its own. *)
Theorem C20_fanout_each_leaf : forall sh log i,
  (i < nleaves sh)%nat -> leaf_log i (fan_trace sh log) = log.
Proof. exact fanout_each_leaf. Qed.

(** * The chain-difference walk as a pure function over the header DAG (Model/ChainWalk.v): parent
    pointers, heights, chainwork; no source, no cache.  For ALL pairs of blocks of ANY well-formed DAG. *)

(** The walk returns the LOWEST common ancestor; [C] is the new chain above it in ascending order,
    [D] the old chain above it, tip first ([rev D] ascending). *)
Theorem C20_walk_lowest_common_ancestor : forall T, wf_tree T -> forall new old ca D C,
  chain_diff T new old = Some (ca, D, C) ->
  path T ca new C /\ path T ca old (rev D) /\
  (forall d, anc T d new -> anc T d old -> anc T d ca).
Proof. exact chain_diff_sound. Qed.

(** ... and it finds one whenever the two blocks have any common ancestor (fuel = sum of heights + 1). *)
Theorem C20_walk_total : forall T, wf_tree T -> forall new old d,
  anc T d new -> anc T d old -> chain_diff T new old <> None.
Proof. exact chain_diff_total. Qed.

(** Heights are strictly consecutive from the common ancestor on both segments, and the disconnected
    list starts with the old tip. *)
Theorem C20_walk_heights_consecutive : forall T, wf_tree T -> forall new old ca D C nda,
  chain_diff T new old = Some (ca, D, C) -> T ca = Some nda ->
  (forall i b, nth_error C i = Some b ->
     exists ndb, T b = Some ndb /\ n_height ndb = n_height nda + Z.of_nat i + 1) /\
  (forall i b, nth_error (rev D) i = Some b ->
     exists ndb, T b = Some ndb /\ n_height ndb = n_height nda + Z.of_nat i + 1) /\
  (D <> [] -> exists D', D = old :: D').
Proof. exact walk_heights. Qed.

(** Refinement to "the listener's view is a chain": a listener whose view is the old chain (the blocks
    above any root at or below the fork point), after dropping [|D|] blocks from the top and appending
    [C], has exactly the new chain as its view. *)
Theorem C20_walk_view_refinement : forall T, wf_tree T -> forall new old ca D C root view,
  chain_diff T new old = Some (ca, D, C) ->
  path T root old view -> anc T root ca -> path T root new (apply_diff view D C).
Proof. exact walk_view. Qed.

(** The source-driven [find_diff] of Model/BlockSync.v (any source, cache hits, errors) refines the pure
    walk: whenever it succeeds its fork point and connected list are exactly those of [chain_diff]. *)
Theorem C20_find_diff_refines_walk : forall T, wf_tree T -> forall src c fuel cur prev n ca asc,
  Forall (truthful T) c -> genuine T cur -> truthful T prev ->
  (Z.to_nat (th T cur + th T prev) < fuel)%nat ->
  fst (find_diff fuel T src c cur prev [] n) = DOk ca asc ->
  exists D, chain_diff T (v_hash cur) (v_hash prev) = Some (v_hash ca, D, map v_hash asc).
Proof. exact find_diff_refines_walk. Qed.

(** [ChainPoller::poll_chain_tip], any source: [Better] iff STRICTLY more chainwork than the best known
    tip (height plays no role; an equal-work tip is [Worse]); the comparison is pinned from poll.rs. *)
Theorem C20_better_iff_more_work : forall T src bk n r n',
  poll_chain_tip T src bk n = (Ok r, n') ->
  match r with
  | Common => True
  | Better t => v_cwork bk < v_cwork t /\ v_hash t <> v_hash bk
  | Worse t => v_cwork t <= v_cwork bk /\ v_hash t <> v_hash bk
  end.
Proof. exact poll_classification. Qed.

(** Whatever the source does, after a poll the stored tip and every cached header satisfy the
    validated-header linkage (height = parent's + 1, chainwork = parent's + own work: what
    [check_builds_on] and fix c78dc41 enforce), and a [Better] tip that was acted upon has it too and
    has strictly more chainwork than the old tip. *)
Theorem C20_adopted_headers_linked : forall T src cl n r cl' log n',
  wf_tree T -> good_client T cl ->
  poll_best_tip T src cl n = (r, cl', log, n') ->
  linked T (cl_tip cl') /\ Forall (linked T) (cl_cache cl') /\
  forall t moved, r = Ok (Better t, moved) ->
    v_cwork (cl_tip cl) < v_cwork t /\ (moved = true -> linked T t).
Proof. exact adopted_linked. Qed.

(** Composite listeners, list level: every notification is delivered to the leaves left to right, each
    exactly once, before the next notification; so the per-leaf logs are [n] copies of the log. *)
Theorem C20_fanout_in_order : forall sh log, fan_trace sh log = flat_map (in_order (nleaves sh)) log.
Proof. exact fan_in_order. Qed.

Theorem C20_fanout_all_leaves : forall sh log, leaf_logs sh log = repeat log (nleaves sh).
Proof. exact leaf_logs_all. Qed.

(** Start-up with N listeners at arbitrary (truthful) positions, on success: each listener's
    notifications connect EVERY block from its own fork point - which lies on its old chain - up to the
    one common tip, header-only notifications included ([conn_hashes] ignores the full/header-only flag). *)
Theorem C20_init_connects_every_block : forall T src ls n c tip logs n',
  wf_tree T -> honest_meta T src -> Forall (locator_ok T) ls ->
  synchronize_listeners T src ls n = (Ok (c, tip), logs, n') ->
  Forall2 (fun loc log =>
             anc T (fork_of (l_hash loc) log) (l_hash loc) /\
             path T (fork_of (l_hash loc) log) (v_hash tip) (conn_hashes log)) ls logs.
Proof. exact init_connects_every_block. Qed.

(** * Non-vacuity: a concrete universe with a fork, an equal-work tie and a more-work shorter fork *)
Definition ex_nd p h b c := {| n_prev := p; n_height := h; n_bwork := b; n_cwork := c; n_pow := true; n_wit := true |}.
Definition ex_list : list (Z * node) :=
  [(1, ex_nd 0 0 2 2); (2, ex_nd 1 1 2 4); (3, ex_nd 2 2 2 6); (4, ex_nd 3 3 2 8);
   (5, ex_nd 2 2 2 6); (6, ex_nd 5 3 4 10); (7, ex_nd 6 4 2 12);
   (8, {| n_prev := 3; n_height := 3; n_bwork := 2; n_cwork := 8; n_pow := false; n_wit := true |})].
Definition ex_T : tree := tree_of_assoc ex_list.

Example C20_ex_wf : wf_tree ex_T.
Proof. apply wf_listb_sound. vm_compute. reflexivity. Qed.

Example C20_ex_good : good_client ex_T {| cl_tip := tv ex_T 4; cl_cache := [] |}.
Proof. split; [eapply tv_truthful; vm_compute; eauto | constructor]. Qed.

(** A reorganisation from tip 4 (work 8) to tip 6 (work 10): one disconnection to the fork point 2,
    then 5 and 6; with a transient failure on the second block fetch only 5 is connected and the
    stored tip is 5. *)
Example C20_ex_reorg :
  let src := scripted ex_T 6 true true (fun _ => None) in
  poll_best_tip ex_T src {| cl_tip := tv ex_T 4; cl_cache := [] |} 0%nat
  = (Ok (Better (tv ex_T 6), true), {| cl_tip := tv ex_T 6; cl_cache := [tv ex_T 6; tv ex_T 5] |},
     [EDisc 2 1; EConn 5 2 true; EConn 6 3 true], 8%nat).
Proof. vm_compute. reflexivity. Qed.

Example C20_ex_partial :
  let src := scripted ex_T 6 true true (fun n => if Nat.eqb n 7 then Some FT else None) in
  poll_best_tip ex_T src {| cl_tip := tv ex_T 4; cl_cache := [] |} 0%nat
  = (Ok (Better (tv ex_T 6), true), {| cl_tip := tv ex_T 5; cl_cache := [tv ex_T 5] |},
     [EDisc 2 1; EConn 5 2 true], 8%nat).
Proof. vm_compute. reflexivity. Qed.

(** Forged metadata (true header 5, chainwork claimed 106 instead of 6) is refused even though the
    parent comes from the cache: the listeners do not move. *)
Example C20_ex_forged_refused :
  let src := scripted ex_T 5 true true (fun n => if Nat.eqb n 1 then Some (FS 5 0 100) else None) in
  poll_best_tip ex_T src {| cl_tip := tv ex_T 4; cl_cache := [tv ex_T 4; tv ex_T 3; tv ex_T 2] |} 0%nat
  = (Ok (Better {| v_hash := 5; v_prev := 2; v_bwork := 2; v_height := 2; v_cwork := 106 |}, false),
     {| cl_tip := tv ex_T 4; cl_cache := [tv ex_T 4; tv ex_T 3; tv ex_T 2] |}, [], 2%nat).
Proof. vm_compute. reflexivity. Qed.

(** Start-up: listeners at 4 (stale fork), 1 and 6 are all brought to 6. *)
Example C20_ex_init :
  let src := scripted ex_T 6 true true (fun _ => None) in
  let ls := [ {| l_hash := 4; l_height := 3; l_prev := [Some 3; Some 2; Some 1] |};
              {| l_hash := 1; l_height := 0; l_prev := [] |};
              {| l_hash := 6; l_height := 3; l_prev := [Some 5; None; Some 1] |} ] in
  snd (fst (synchronize_listeners ex_T src ls 0%nat))
  = [ [EDisc 2 1; EConn 5 2 true; EConn 6 3 true]; [EConn 2 1 true; EConn 5 2 true; EConn 6 3 true]; [] ].
Proof. vm_compute. reflexivity. Qed.

(** The pure walk on the same universe: from old tip 4 to new tip 6 the lowest common ancestor is 2,
    4 and 3 are disconnected (tip first), 5 and 6 connected; a view [2;3;4] above root 1 becomes [2;5;6]. *)
Example C20_ex_walk :
  chain_diff ex_T 6 4 = Some (2, [4; 3], [5; 6]) /\ apply_diff [2; 3; 4] [4; 3] [5; 6] = [2; 5; 6] /\
  chain_diff ex_T 7 7 = Some (7, [], []) /\ chain_diff ex_T 1 4 = Some (1, [4; 3; 2], []).
Proof. vm_compute. repeat split; reflexivity. Qed.

(** An equal-work tip (5 against the stored 3, both chainwork 6) is Worse. *)
Example C20_ex_tie_is_worse :
  poll_chain_tip ex_T (scripted ex_T 5 true true (fun _ => None)) (tv ex_T 3) 0%nat = (Ok (Worse (tv ex_T 5)), 2%nat).
Proof. vm_compute. reflexivity. Qed.

Example C20_ex_fan_order :
  fan_trace (Pair Leaf (Pair Leaf Leaf)) [EDisc 2 1; EConn 5 2 false]
  = [(0, EDisc 2 1); (1, EDisc 2 1); (2, EDisc 2 1); (0, EConn 5 2 false); (1, EConn 5 2 false); (2, EConn 5 2 false)]%nat.
Proof. vm_compute. reflexivity. Qed.

Example C20_ex_init_connects :
  fork_of 4 [EDisc 2 1; EConn 5 2 false; EConn 6 3 true] = 2 /\
  conn_hashes [EDisc 2 1; EConn 5 2 false; EConn 6 3 true] = [5; 6].
Proof. vm_compute. split; reflexivity. Qed.
