(** C15 — The encrypted transport delivers the exact message sequence or disconnects.
    Statements only; proofs are in Proofs/C15Framing.v, C15Noise.v, C15Delivery.v, C15Inst.v.
    The cryptographic primitives are section variables; every law a theorem uses is a
    [Hypothesis] of the section it is stated in (visible premise after the section closes). *)
Require Import LdkV.Prim.U64 LdkV.Gen.NoiseConsts.
From Coq Require Import List.
Import ListNotations.
Require Import LdkV.Model.Noise LdkV.Model.Framing LdkV.Model.PeerGate LdkV.Model.PeerRead LdkV.Model.NoiseInst.
Require Import LdkV.Proofs.C15Framing LdkV.Proofs.C15Noise LdkV.Proofs.C15Delivery LdkV.Proofs.C15Inst.
Open Scope Z_scope.

(** the constants the model takes from the source *)
Theorem C15_constants :
  ROT_SEND = ROT_RECV /\ 0 < ROT_SEND /\ ROT_SEND mod 2 = 0 /\
  0 <= MIN_MSG_LEN <= LN_MAX_MSG_LEN /\ LN_MAX_MSG_LEN < 65536.
Proof. exact consts_ok. Qed.

Section Primitives.
  Variable dh : bytes -> bytes -> bytes.
  Variable pub : bytes -> bytes.
  Variable pk_valid : bytes -> bool.
  Variable hkdf2 : bytes -> bytes -> bytes * bytes.
  Variable H : bytes -> bytes.
  Variable seal : bytes -> Z -> bytes -> bytes -> bytes.
  Variable open : bytes -> Z -> bytes -> bytes -> option bytes.

  (** ** Handshake *)
  Section Handshake.
    Hypothesis dh_sym : forall a b, dh a (pub b) = dh b (pub a).
    Hypothesis pub_len : forall a, length (pub a) = 33%nat.
    Hypothesis pub_valid : forall a, pk_valid (pub a) = true.
    Hypothesis seal_len : forall k n ad p, length (seal k n ad p) = (length p + 16)%nat.
    Hypothesis open_seal : forall k n ad p, open k n ad (seal k n ad p) = Some p.

    (** for all static keys [ls_i], [ls_r] and ephemeral keys [ie], [re]: the three acts (50, 50,
        66 bytes) are accepted in turn, each side learns the other's static key, and the transport
        states have swapped keys, one common chaining key and all nonces 0 *)
    Theorem C15_handshake_agrees : forall ls_i ls_r ie re,
      exists act1 e_i1 act2 e_r1 act3 t_i t_r,
        get_act_one dh pub hkdf2 H seal (new_outbound H (pub ls_r) ie) = Some (act1, e_i1) /\
        process_act_one_with_keys dh pub pk_valid hkdf2 H seal open (new_inbound pub H ls_r) act1 ls_r re
          = Some (Some (act2, e_r1)) /\
        process_act_two dh pub pk_valid hkdf2 H seal open e_i1 act2 ls_i
          = Some (Some (act3, pub ls_r, Finished t_i)) /\
        process_act_three dh pk_valid hkdf2 H open e_r1 act3 = Some (Some (pub ls_i, Finished t_r)) /\
        length act1 = 50%nat /\ length act2 = 50%nat /\ length act3 = 66%nat /\
        t_sk t_i = t_rk t_r /\ t_rk t_i = t_sk t_r /\
        t_sck t_i = t_rck t_r /\ t_rck t_i = t_sck t_r /\ t_sck t_i = t_rck t_i /\
        t_sn t_i = 0 /\ t_rn t_i = 0 /\ t_sn t_r = 0 /\ t_rn t_r = 0.
    Proof. exact (handshake_agrees dh pub pk_valid hkdf2 H seal open dh_sym pub_len pub_valid seal_len open_seal). Qed.
  End Handshake.

  (** an act is accepted only when version byte, key encoding and MAC all check; otherwise the
      result is [Err] ([Some None]) and there is no successor state (no hypothesis needed) *)
  Theorem C15_handshake_act_checks : forall st act k their_pub temp_k st',
    inbound_noise_act dh pk_valid hkdf2 H open st act k = Some (their_pub, temp_k, st') ->
    nth 0 act 0 = 0 /\ their_pub = slice 1 34 act /\ pk_valid their_pub = true /\
    let h1 := H (hs_h st ++ their_pub) in
    let '(ck, tk) := hkdf2 (hs_ck st) (dh k their_pub) in
    tk = temp_k /\ open temp_k 0 h1 (skipn 34 act) <> None.
  Proof. exact (inbound_act_checks dh pk_valid hkdf2 H open). Qed.

  Theorem C15_handshake_bad_version : forall st act k,
    nth 0 act 0 <> 0 -> inbound_noise_act dh pk_valid hkdf2 H open st act k = None.
  Proof. exact (bad_version_rejected dh pk_valid hkdf2 H open). Qed.

  Theorem C15_handshake_act_one_rejected : forall st act ls re,
    inbound_noise_act dh pk_valid hkdf2 H open st act ls = None ->
    process_act_one_with_keys dh pub pk_valid hkdf2 H seal open (InPreActOne st) act ls re = Some None.
  Proof. exact (act_one_rejected_no_state dh pub pk_valid hkdf2 H seal open). Qed.

  Theorem C15_handshake_act_two_rejected : forall ie their st act ls,
    inbound_noise_act dh pk_valid hkdf2 H open st act ie = None ->
    process_act_two dh pub pk_valid hkdf2 H seal open (OutPostActOne ie their st) act ls = Some None.
  Proof. exact (act_two_rejected_no_state dh pub pk_valid hkdf2 H seal open). Qed.

  Theorem C15_handshake_act_three_checks : forall ie_pub re tk2 st act their e,
    process_act_three dh pk_valid hkdf2 H open (InPostActTwo ie_pub re tk2 st) act = Some (Some (their, e)) ->
    nth 0 act 0 = 0 /\
    open tk2 1 (hs_h st) (slice 1 50 act) = Some their /\ pk_valid their = true /\
    exists t, e = Finished t /\ t_sn t = 0 /\ t_rn t = 0 /\ t_sck t = t_rck t.
  Proof. exact (act_three_checks dh pk_valid hkdf2 H open). Qed.

  (** ** Rotation: exactly at the extracted constant, send and receive halves alike *)
  Theorem C15_rotation_send : forall t m c t', enc_msg hkdf2 seal t m = Some (c, t') ->
    (t_sn t < ROT_SEND -> t_sk t' = t_sk t /\ t_sck t' = t_sck t /\ t_sn t' = t_sn t + 2) /\
    (ROT_SEND <= t_sn t -> (t_sck t', t_sk t') = hkdf2 (t_sck t) (t_sk t) /\ t_sn t' = 2) /\
    t_rk t' = t_rk t /\ t_rn t' = t_rn t /\ t_rck t' = t_rck t.
  Proof. exact (rotation_send hkdf2 seal). Qed.

  Theorem C15_rotation_recv : forall t hdr len t', dec_header hkdf2 open t hdr = Some (len, t') ->
    (t_rn t < ROT_RECV -> t_rk t' = t_rk t /\ t_rck t' = t_rck t /\ t_rn t' = t_rn t + 1) /\
    (ROT_RECV <= t_rn t -> (t_rck t', t_rk t') = hkdf2 (t_rck t) (t_rk t) /\ t_rn t' = 1) /\
    t_sk t' = t_sk t /\ t_sn t' = t_sn t /\ t_sck t' = t_sck t.
  Proof. exact (rotation_recv hkdf2 open). Qed.

  Theorem C15_rotation_not_in_body : forall t body m t', dec_body open t body = Some (m, t') ->
    t_rk t' = t_rk t /\ t_rck t' = t_rck t /\ t_rn t' = t_rn t + 1 /\
    t_sk t' = t_sk t /\ t_sn t' = t_sn t /\ t_sck t' = t_sck t.
  Proof. exact (body_no_rotation open). Qed.

  (** after [j >= 1] messages from a fresh state, [j - 1 = r * (ROT_SEND/2) + s]: exactly [r]
      rotations have been applied and the nonce is [2 (s + 1)] *)
  Theorem C15_rotation_closed_form : forall ms t cs t' ck0 k0,
    t_sn t = 0 -> (t_sck t, t_sk t) = (ck0, k0) ->
    enc_all hkdf2 seal t ms = Some (cs, t') -> ms <> [] ->
    exists (r : nat) s,
      Z.of_nat (length ms) - 1 = Z.of_nat r * PER + s /\ 0 <= s < PER /\
      (t_sck t', t_sk t') = rot_n hkdf2 r (ck0, k0) /\ t_sn t' = 2 * (s + 1).
  Proof. exact (rotation_closed_form hkdf2 seal). Qed.

  (** ** Reader over the AEAD laws *)
  Section Transport.
    Variable decode : bytes -> dres.
    Variable init_ok : bytes -> bool.
    Variable handler_ok : bytes -> bool.
    Variable our_node_secret : bytes.
    Variable our_ephemeral : bytes.
    Hypothesis seal_len : forall k n ad p, length (seal k n ad p) = (length p + 16)%nat.
    Hypothesis open_seal : forall k n ad p, open k n ad (seal k n ad p) = Some p.

    Notation ph := (peer_handle dh pub pk_valid hkdf2 H seal open decode init_ok handler_ok
                                our_node_secret our_ephemeral).

    (** one message: both halves stay in lock-step, the other direction is untouched *)
    Theorem C15_lockstep_one_message : forall ts tr m,
      synced ts tr -> blen m <= LN_MAX_MSG_LEN ->
      exists hdr body ts' tr1 tr',
        enc_msg hkdf2 seal ts m = Some (hdr ++ body, ts') /\
        length hdr = 18%nat /\ length body = (length m + 16)%nat /\
        dec_header hkdf2 open tr hdr = Some (blen m, tr1) /\
        dec_body open tr1 body = Some (m, tr') /\
        synced ts' tr' /\
        t_rk ts' = t_rk ts /\ t_rn ts' = t_rn ts /\ t_rck ts' = t_rck ts /\
        t_sk tr' = t_sk tr /\ t_sn tr' = t_sn tr /\ t_sck tr' = t_sck tr.
    Proof. exact (enc_dec_one hkdf2 seal open seal_len open_seal). Qed.

    (** DELIVERY: every message list, every fragmentation *)
    Theorem C15_delivery : forall ms ts tr b cs ts' fs,
      synced ts tr -> Forall len_ok ms -> enc_all hkdf2 seal ts ms = Some (cs, ts') ->
      concat fs = concat cs ->
      let '(c', evs) := feed_all pstate event ph (transport_conn tr b) fs in
      evs = fst (gate_trace decode init_ok handler_ok b ms) /\
      match snd (gate_trace decode init_ok handler_ok b ms) with
      | Some b' =>
        exists tr', c' = transport_conn tr' b' /\ synced ts' tr' /\
                    t_sk tr' = t_sk tr /\ t_sn tr' = t_sn tr /\ t_sck tr' = t_sck tr
      | None => c_status c' = Disconnected
      end.
    Proof. exact (delivery dh pub pk_valid hkdf2 H seal open decode init_ok handler_ok our_node_secret our_ephemeral seal_len open_seal). Qed.

    (** TRUNCATION: a prefix of the stream yields a prefix of the events *)
    Theorem C15_truncation_prefix : forall ms ts tr b cs ts' fs q,
      synced ts tr -> Forall len_ok ms -> enc_all hkdf2 seal ts ms = Some (cs, ts') ->
      concat fs ++ q = concat cs ->
      exists later, fst (gate_trace decode init_ok handler_ok b ms) =
                    snd (feed_all pstate event ph (transport_conn tr b) fs) ++ later.
    Proof. exact (prefix_delivery dh pub pk_valid hkdf2 H seal open decode init_ok handler_ok our_node_secret our_ephemeral seal_len open_seal). Qed.

    (** TAMPER *)
    Theorem C15_tamper_disconnects : forall ms1 ts tr b cs1 ts1 b1 m hdr body ts2 f' rest fs,
      synced ts tr -> Forall len_ok ms1 -> len_ok m ->
      enc_all hkdf2 seal ts ms1 = Some (cs1, ts1) ->
      snd (gate_trace decode init_ok handler_ok b ms1) = Some b1 ->
      enc_msg hkdf2 seal ts1 m = Some (hdr ++ body, ts2) -> length hdr = 18%nat ->
      length f' = length (hdr ++ body) -> f' <> hdr ++ body ->
      let k := t_sk (rotate_send hkdf2 ts1) in
      let n := t_sn (rotate_send hkdf2 ts1) in
      (firstn 18 f' <> hdr -> open k n [] (firstn 18 f') = None) ->
      (skipn 18 f' <> body -> open k (n + 1) [] (skipn 18 f') = None) ->
      concat fs = concat cs1 ++ f' ++ rest ->
      let '(c', evs) := feed_all pstate event ph (transport_conn tr b) fs in
      evs = fst (gate_trace decode init_ok handler_ok b ms1) /\ c_status c' = Disconnected.
    Proof. exact (tamper_disconnects dh pub pk_valid hkdf2 H seal open decode init_ok handler_ok our_node_secret our_ephemeral seal_len open_seal). Qed.

    Theorem C15_short_message_disconnects : forall ts tr b m c ts' rest fs,
      synced ts tr -> blen m < MIN_MSG_LEN -> enc_msg hkdf2 seal ts m = Some (c, ts') ->
      concat fs = c ++ rest ->
      let '(c', evs) := feed_all pstate event ph (transport_conn tr b) fs in
      evs = [] /\ c_status c' = Disconnected.
    Proof. exact (short_message_disconnects dh pub pk_valid hkdf2 H seal open decode init_ok handler_ok our_node_secret our_ephemeral seal_len open_seal). Qed.
  End Transport.

  (** ** Arbitrary input: no panic, Init first. No hypothesis on the primitives at all. *)
  Section AnyInput.
    Variable decode : bytes -> dres.
    Variable init_ok : bytes -> bool.
    Variable handler_ok : bytes -> bool.
    Variable our_node_secret : bytes.
    Variable our_ephemeral : bytes.
    Notation ph := (peer_handle dh pub pk_valid hkdf2 H seal open decode init_ok handler_ok
                                our_node_secret our_ephemeral).

    (** THE GATE, for every message kind the code path distinguishes (Init, start_batch,
        commitment_signed inside or outside a batch, gossip_timestamp_filter, anything else) and
        every decode outcome: while the peer's Init has not been accepted no message reaches a
        handler, no batch is opened, and whatever decodes to a non-Init message disconnects *)
    Theorem C15_gate_closed_before_init : forall g m,
      g_init g = false ->
      let '(evs, r) := gate_msg decode init_ok handler_ok g m in
      ~ In EvDeliver evs /\
      (forall g', r = Some g' -> g_batch g' = g_batch g) /\
      (forall k, decode m = DOk k -> k <> KInit -> r = None).
    Proof. exact (gate_closed_before_init decode init_ok handler_ok). Qed.

    (** every reply the gate enqueues (the pong to a ping) fits a transport frame: it is sent only
        when [ponglen < PING_PONGLEN_LIMIT] (constant taken from the source), and is
        [ponglen + 4 <= LN_MAX_MSG_LEN] bytes long *)
    Theorem C15_replies_fit_a_frame : forall g m,
      (forall pl, decode m = DOk (KPing pl) -> 0 <= pl) ->
      Forall (fun e => match e with EvReply r => blen r <= LN_MAX_MSG_LEN | _ => True end)
             (fst (gate_msg decode init_ok handler_ok g m)).
    Proof. exact (replies_fit_frame decode init_ok handler_ok). Qed.

    (** inbound connection, any sequence of [read_event] calls with any bytes: the reader ends
        alive or disconnected (no assertion failure, no wrong-step panic, loop terminates), and any
        handler delivery is preceded by their accepted Init, itself preceded by the end of the
        handshake (where our Init is queued) *)
    Theorem C15_init_first_inbound : forall fs,
      let '(c', evs) := feed_all pstate event ph (inbound_conn pub H our_node_secret) fs in
      (c_status c' = Alive \/ c_status c' = Disconnected) /\
      forall pre post, evs = pre ++ EvDeliver :: post ->
        In EvInit pre /\ exists id, In (EvNoiseDone id) pre.
    Proof. exact (init_first_inbound dh pub pk_valid hkdf2 H seal open decode init_ok handler_ok our_node_secret our_ephemeral). Qed.

    Theorem C15_init_first_outbound : forall their ie act c0 fs,
      outbound_conn dh pub hkdf2 H seal their ie = Some (act, c0) ->
      let '(c', evs) := feed_all pstate event ph c0 fs in
      (c_status c' = Alive \/ c_status c' = Disconnected) /\
      forall pre post, evs = pre ++ EvDeliver :: post ->
        In EvInit pre /\ exists id, In (EvNoiseDone id) pre.
    Proof. exact (init_first_outbound dh pub pk_valid hkdf2 H seal open decode init_ok handler_ok our_node_secret our_ephemeral). Qed.
  End AnyInput.
End Primitives.

(** ** Framing, for any chunk handler *)

(** the copy-min loop of [do_read_event] is the byte-at-a-time machine *)
Theorem C15_reader_is_bytewise : forall (S E : Type) (handle : S -> bytes -> chunk_res S E) st data,
  feed1 S E handle st data = feed_bytes S E handle st data.
Proof. exact feed1_bytes. Qed.

(** how the stream is cut into reads is irrelevant *)
Theorem C15_fragmentation_irrelevant : forall (S E : Type) (handle : S -> bytes -> chunk_res S E) fs fs' c,
  concat fs = concat fs' -> feed_all S E handle c fs = feed_all S E handle c fs'.
Proof. exact feed_all_same_stream. Qed.

(** ** Writer: for every sequence of enqueues, [process_events] and
    [write_buffer_space_avail] calls and every pattern of socket answers *)
Theorem C15_backpressure_fifo : forall ops st sent,
  wrun w_init ops = (st, sent) -> sent ++ w_pending st = concat (enqueued ops).
Proof. exact writer_fifo. Qed.

Theorem C15_writer_drains : forall queue off pause blocked oracle st sent o calls,
  Forall2 (fun b x => (length b <= x)%nat) queue (firstn (length queue) oracle) ->
  (match queue with [] => off = O | b :: _ => (off <= length b)%nat end) ->
  write_loop queue off false pause true blocked oracle = (st, sent, o, calls) ->
  w_queue st = [] /\ w_off st = O.
Proof. exact write_loop_drains. Qed.

(** ** Read pause / resume across [send_data(data, continue_read)] *)

(** the socket driver takes the read-pause flag from [continue_read] on every call, also with no
    data: [continue_read = true] unpauses and wakes a paused reader *)
Theorem C15_driver_resumes_on_any_write : forall d data,
  d_read_paused (drv_send_data d data true) = false /\
  (d_read_paused d = true -> d_wakeups (drv_send_data d data true) = Datatypes.S (d_wakeups d)).
Proof. exact drv_resume. Qed.

(** reads were paused and the reason is gone (fewer than OUTBOUND_BUFFER_LIMIT_READ_PAUSE buffers
    queued, gossip not backlogged): the next [process_events] (forced or not, any socket answers,
    even with nothing queued) or [write_buffer_space_avail] makes at least one [send_data] call,
    all with [continue_read = true], leaves [sent_pause_read = false], and a driver honouring the
    contract ends unpaused and woken *)
Theorem C15_read_resume : forall st op d st' sent calls,
  w_pause st = true -> d_read_paused d = true ->
  (exists force oracle, op = WProcess force false oracle) \/ (exists oracle, op = WSpaceAvail false oracle) ->
  should_read (w_queue st) false = true ->
  wstep_full st op = (st', sent, calls) ->
  calls <> [] /\ Forall (fun c => c = true) calls /\ w_pause st' = false /\
  d_read_paused (drv_calls d calls) = false /\ (d_wakeups d < d_wakeups (drv_calls d calls))%nat.
Proof. exact read_resume. Qed.

(** ** The executable ChaCha20-Poly1305 instance satisfies the AEAD laws, so delivery holds for it
    with no cryptographic hypothesis (HKDF, SHA-256 and ECDH stay arbitrary functions) *)
Theorem C15_delivery_chachapoly :
  forall dh pub pk_valid hkdf2 H decode init_ok handler_ok ls re ms ts tr b cs ts' fs,
  synced ts tr -> Forall len_ok ms -> enc_all hkdf2 i_seal ts ms = Some (cs, ts') ->
  concat fs = concat cs ->
  let '(c', evs) := feed_all pstate event
      (peer_handle dh pub pk_valid hkdf2 H i_seal i_open decode init_ok handler_ok ls re)
      (transport_conn tr b) fs in
  evs = fst (gate_trace decode init_ok handler_ok b ms) /\
  match snd (gate_trace decode init_ok handler_ok b ms) with
  | Some b' =>
    exists tr', c' = transport_conn tr' b' /\ synced ts' tr' /\
                t_sk tr' = t_sk tr /\ t_sn tr' = t_sn tr /\ t_sck tr' = t_sck tr
  | None => c_status c' = Disconnected
  end.
Proof.
  exact (fun dh pub pk_valid hkdf2 H decode init_ok handler_ok ls re =>
    delivery dh pub pk_valid hkdf2 H i_seal i_open decode init_ok handler_ok ls re i_seal_len i_open_seal).
Qed.

(** for that instance a chunk that opens is a sealing under the session key: accepting a chunk
    other than the honest one means the stream contained a forgery *)
Theorem C15_chachapoly_accepts_only_sealings : forall k n ad c p,
  i_open k n ad c = Some p -> c = i_seal k n ad p.
Proof. exact i_open_inv. Qed.

(** ** Non-vacuity *)

(** the handshake laws are jointly satisfiable (toy primitives) *)
Example C15_laws_satisfiable :
  exists (dh : bytes -> bytes -> bytes) (pub : bytes -> bytes) (pk_valid : bytes -> bool)
         (seal : bytes -> Z -> bytes -> bytes -> bytes)
         (open : bytes -> Z -> bytes -> bytes -> option bytes),
    (forall a b, dh a (pub b) = dh b (pub a)) /\
    (forall a, length (pub a) = 33%nat) /\
    (forall a, pk_valid (pub a) = true) /\
    (forall k n ad p, length (seal k n ad p) = (length p + 16)%nat) /\
    (forall k n ad p, open k n ad (seal k n ad p) = Some p).
Proof.
  exists (fun a p => [fold_right Z.add 0 a * nth 0 p 0]),
         (fun a => fold_right Z.add 0 a :: repeat 0 32),
         (fun _ => true),
         (fun _ _ _ p => p ++ repeat 0 16),
         (fun _ _ _ c => Some (firstn (length c - 16) c)).
  split; [intros a b; cbn [nth]; f_equal; apply Z.mul_comm|].
  split; [intros a; cbn [length]; rewrite repeat_length; reflexivity|].
  split; [reflexivity|].
  split; [intros k n ad p; rewrite app_length, repeat_length; reflexivity|].
  intros k n ad p. rewrite app_length, repeat_length, Nat.add_sub, firstn_app, Nat.sub_diag, firstn_all.
  cbn. rewrite app_nil_r. reflexivity.
Qed.

(** the real AEAD: an honest frame decrypts, the same frame with one flipped bit in the header, in
    the body, or replayed under the next nonce does not (the premise of [C15_tamper_disconnects]) *)
Example C15_tamper_premise_chachapoly :
  let k := repeat 7 32 in
  let hdr := i_seal k 0 [] (be16 5) in
  let body := i_seal k 1 [] [0; 16; 1; 2; 3] in
  i_open k 0 [] hdr = Some (be16 5) /\ i_open k 1 [] body = Some [0; 16; 1; 2; 3] /\
  i_open k 0 [] (Z.lxor (nth 0 hdr 0) 1 :: skipn 1 hdr) = None /\
  i_open k 1 [] (firstn 20 body ++ [Z.lxor (nth 20 body 0) 128]) = None /\
  i_open k 2 [] hdr = None /\ i_open k 3 [] body = None.
Proof. vm_compute. repeat split. Qed.

(** a synced pair of transport states and a non-trivial message list within the bounds exist *)
Example C15_delivery_premises_inhabited :
  let t := mk_tr [1] 998 [2] [3] 0 [4] in
  let t' := mk_tr [3] 0 [4] [1] 998 [2] in
  synced t t' /\ Forall len_ok [[0; 16; 0]; repeat 0 (Z.to_nat 65535)].
Proof.
  split; [repeat split|].
  apply Forall_cons; [unfold len_ok, blen, MIN_MSG_LEN, LN_MAX_MSG_LEN; cbn [length]; lia|].
  apply Forall_cons; [|apply Forall_nil].
  unfold len_ok, blen, MIN_MSG_LEN, LN_MAX_MSG_LEN. rewrite repeat_length. lia.
Qed.
