(** C19 - Stored channel state is never lost or torn by the storage layer.
    Statements only; proofs in Proofs/C19*.v.  Models: Model/KV.v (the KVStore contract incl. lazy
    removals), Model/MUP.v (MonitorUpdatingPersister), Model/FsStoreProto.v (FilesystemStore's
    versioned-write protocol). *)
Require Import LdkV.Prim.U64 LdkV.Model.KV LdkV.Model.MUP LdkV.Model.FsStoreProto.
Require Import LdkV.Proofs.C19Kv LdkV.Proofs.C19Mup LdkV.Proofs.C19Fs.
Open Scope Z_scope.
Local Open Scope list_scope.

(** Crash consistency of the monitor-updating persister over any store that completes operations in
    issue order (the sync [KVStoreSync] case), for EVERY abstract monitor type and [apply] function,
    every [maximum_pending_updates >= 0], every history following the ChainMonitor discipline
    ([hist_ok]: consecutive updates each persisted together with the in-memory monitor it produced,
    full re-persists, [cleanup_stale_updates] calls with any observation of pending lazy removals,
    arbitrary traffic on other keys), a crash after ANY number [k] of store operations of the next
    call, and ANY subset [gone] of the pending lazy removals having taken effect:
    recovery succeeds and returns exactly the in-memory monitor as of after that call, or (only if no
    operation of the call had been applied yet) as of before it - hence it includes every update
    reported persisted ([before] is the state after all completed calls). *)
Theorem C19_mup_crash_consistent :
  forall (St Up : Type) (apply : St -> Up -> St) (uid : Up -> Z) (refuses : St -> Up -> bool) (maxp m : Z),
  0 <= maxp ->
  forall mon0 cs c before after k gone,
  hist_ok St Up apply uid refuses m mon0 cs before -> call_ok St Up apply uid refuses m before c after ->
  let s := crash_state St Up uid maxp (CNew m mon0 :: cs) c k in
  read_with_updates St Up apply uid refuses (view mkey_eqb s gone) m = ROk after \/
  (k = 0%nat /\ read_with_updates St Up apply uid refuses (view mkey_eqb s gone) m = ROk before).
Proof. intros; eapply crash_consistent; eauto. Qed.

(** Clean-up never deletes what recovery needs: (a) the in-range clean-up of
    [update_persisted_channel] is issued only after the write of a full monitor in the same call and
    only for ids up to that monitor's id; (b) [cleanup_stale_updates] removes only ids up to the id of
    the monitor it read under that key.  (That recovery then still succeeds at every crash point is
    [C19_mup_crash_consistent].) *)
Theorem C19_cleanup_safe :
  forall (St Up : Type) (uid : Up -> Z) (maxp : Z),
  (forall m' (st : store mkey (val St Up)) u (mon : monitor St) (o : sop mkey (val St Up)),
     mid mon <> LEGACY_ID ->
     In o (update_ops St Up uid maxp m' st u mon) ->
     (exists k v, o = SWrite k v) \/
     (exists i, o = SRemove (KUpd m' i) true /\ i <= mid mon /\
                exists sent rest, update_ops St Up uid maxp m' st u mon = SWrite (KMon m') (VMon sent mon) :: rest)) /\
  (forall (st : store mkey (val St Up)) lazy (o : sop mkey (val St Up)),
     In o (cleanup_stale_ops St Up st lazy) ->
     exists m' i sent (mon : monitor St), o = SRemove (KUpd m' i) lazy /\
       kv_get mkey_eqb st (KMon m') = Some (VMon sent mon) /\ i <= mid mon).
Proof. intros St Up uid maxp. exact (cleanup_safe St Up (fun s _ => s) uid (fun _ _ => false) maxp). Qed.

(** A refused update is never stored as an incremental update: after every history (in which ChainMonitor
    hands a refused - but state-changing - update to the persister as a FULL monitor persist, [c_refused])
    the incremental updates found above the stored monitor are exactly the pending ones, consecutive,
    and each re-applies successfully to the monitor obtained so far ([refuses ... = false]): replaying
    the store never meets an update that [update_monitor] rejects. *)
Theorem C19_stored_updates_reapply :
  forall (St Up : Type) (apply : St -> Up -> St) (uid : Up -> Z) (refuses : St -> Up -> bool) (maxp m : Z),
  0 <= maxp ->
  forall mon0 cs fin,
  hist_ok St Up apply uid refuses m mon0 cs fin ->
  let s := run St Up uid maxp {| durable := []; limbo := [] |} (CNew m mon0 :: cs) in
  exists sent base pend,
    kv_get mkey_eqb (durable s) (KMon m) = Some (VMon sent base) /\
    mem St Up apply uid base pend = fin /\ chain St Up apply uid base pend /\
    (forall u, In u pend -> kv_get mkey_eqb (durable s) (KUpd m (uid u)) = Some (VUpd u)) /\
    (forall i v, kv_get mkey_eqb (durable s) (KUpd m i) = Some v -> mid base < i -> exists u, In u pend /\ uid u = i) /\
    (forall c u, nth_error pend c = Some u ->
       refuses (mst (mem St Up apply uid base (firstn c pend))) u = false).
Proof. intros; eapply stored_updates_reapply; eauto. Qed.

(** Asynchronous store, hypothesis stated: the issued operations become durable in issue order (the
    crash state is the result of a prefix of them).  Then recovery returns one of the in-memory
    monitors reached along the history. *)
Theorem C19_mup_async_inorder :
  forall (St Up : Type) (apply : St -> Up -> St) (uid : Up -> Z) (refuses : St -> Up -> bool) (maxp m : Z),
  0 <= maxp ->
  forall mon0 cs fin k gone,
  hist_ok St Up apply uid refuses m mon0 cs fin -> (1 <= k)%nat ->
  let s := apply_sops mkey_eqb empty_state
             (firstn k (issued St Up uid maxp empty_state (CNew m mon0 :: cs))) in
  exists r, read_with_updates St Up apply uid refuses (view mkey_eqb s gone) m = ROk r /\
            mem_reached St Up apply uid refuses m mon0 cs r.
Proof. intros; eapply async_inorder; eauto. Qed.

(** Asynchronous store in general (the fix for finding H1 makes recovery stop at the first missing
    update instead of applying a later one): for EVERY durability outcome of every call - nothing of
    it durable, or its write durable followed by any subset of its lazy removals - recovery never fails
    and returns one of the in-memory monitors of the history; and if a prefix [cs1] of the history
    completed entirely (all that can have been reported persisted), the recovered monitor is at least
    as recent as the in-memory monitor [fin1] after that prefix. *)
Theorem C19_mup_async :
  forall (St Up : Type) (apply : St -> Up -> St) (uid : Up -> Z) (refuses : St -> Up -> bool) (maxp m : Z),
  0 <= maxp ->
  forall mon0 cs1 cs2 fin1 fin sels1 sels2 gone,
  hist_ok St Up apply uid refuses m mon0 cs1 fin1 -> hist_ok St Up apply uid refuses m fin1 cs2 fin ->
  List.length sels1 = List.length cs1 -> Forall (fun x => x <> SelNone) sels1 ->
  let s := async_run St Up uid maxp empty_state (CNew m mon0 :: cs1 ++ cs2) (SelWrite [] :: sels1 ++ sels2) in
  exists r, read_with_updates St Up apply uid refuses (view mkey_eqb s gone) m = ROk r /\
            In r (mems St Up mon0 (cs1 ++ cs2)) /\ mid fin1 <= mid r.
Proof. intros; eapply async_reported; eauto. Qed.

(** Failing store operations ("individual store operations failing") and crashes in the middle of a
    call, sync or async: every call of [cs1] completed - its write durable and ANY subset of its removals
    applied (the others failed, are lazy, or were never executed) -, then the call [c] with ANY outcome
    [x] - including [SelNone]: its write FAILED, the call returned an error and, because the clean-up is
    guarded by [if let Ok(()) = write_status], nothing else was done - interrupted after ANY number [k]
    of the operations it did apply, any subset of limbo applied: recovery returns an in-memory monitor
    of the history at least as recent as [fin1], the monitor after the last completed call (everything
    reported persisted). *)
Theorem C19_mup_faulty_crash_consistent :
  forall (St Up : Type) (apply : St -> Up -> St) (uid : Up -> Z) (refuses : St -> Up -> bool) (maxp m : Z),
  0 <= maxp ->
  forall mon0 cs1 fin1 c after sels1 x k gone,
  hist_ok St Up apply uid refuses m mon0 cs1 fin1 -> call_ok St Up apply uid refuses m fin1 c after ->
  List.length sels1 = List.length cs1 -> Forall (fun y => y <> SelNone) sels1 ->
  let s1 := async_run St Up uid maxp empty_state (CNew m mon0 :: cs1) (SelWrite [] :: sels1) in
  let s := apply_sops mkey_eqb s1 (firstn k (sel_ops St Up (call_ops St Up uid maxp s1 c) x)) in
  exists r, read_with_updates St Up apply uid refuses (view mkey_eqb s gone) m = ROk r /\
            In r (mems St Up mon0 (cs1 ++ [c])) /\ mid fin1 <= mid r.
Proof. intros; eapply faulty_crash_consistent; eauto. Qed.

(** ... and a call whose write fails applies no store operation at all (no clean-up after a failed
    consolidation write). *)
Theorem C19_no_cleanup_after_failed_write :
  forall (St Up : Type) (uid : Up -> Z) (maxp : Z) s c fails,
  fails 0%nat = true -> call_ops_f St Up uid maxp s c fails = ([], false).
Proof. exact no_cleanup_after_failed_write. Qed.

(** The history of finding H1 (monitor 0, updates 1 and 2 in flight, only update 2 durable): the model
    of the FIXED code recovers monitor 0; before the fix [update_monitor] panicked here. *)
Definition ex_apply (st : list Z) (u : Z) : list Z := u :: st.
Definition ex_uid (u : Z) : Z := u.
Definition ex_refuses (st : list Z) (u : Z) : bool := u =? 3.   (* update 3 is one the monitor refuses *)
Definition ex_mon (i : Z) (st : list Z) : monitor (list Z) := {| mid := i; mst := st |}.
Definition ex_hist : list (call (list Z) Z) :=
  [CNew 7 (ex_mon 0 []); CUpdate 7 (Some 1) (ex_mon 1 [1]); CUpdate 7 (Some 2) (ex_mon 2 [2; 1])].

Example C19_ex_async_gap :
  read_with_updates (list Z) Z ex_apply ex_uid ex_refuses
    (view mkey_eqb (async_run (list Z) Z ex_uid 5 empty_state ex_hist [SelWrite []; SelNone; SelWrite []]) []) 7
  = ROk (ex_mon 0 []).
Proof. vm_compute. reflexivity. Qed.

(** FilesystemStore's versioned-write protocol (global [next_version], per-path lock entry holding the
    last written version, stale writes skipped, entry removed when no other operation holds it; the
    file system is an atomic map: tmp-file + rename assumed atomic).  For every set of operations and
    EVERY schedule of their steps in which the issue phases (version fetch + lock-entry acquisition) of
    operations on one key do not overlap - the KVStore contract's "in the order they were issued" -:
    once all operations are done, each key holds the effect of the LAST ISSUED write/remove on it AMONG
    THOSE WHOSE CALLBACK DID NOT FAIL ([is_eff]; a [FFail] operation - rename/unlink/fsync error inside
    the lock - takes a version but must not record it, so it can never make an earlier-issued successful
    operation look stale), the
    lock table is empty, and at every intermediate step the file holds the effect of an issued
    operation whose version never decreases (clean-up of the lock table never resurrects an older
    version). *)
Theorem C19_versioned_writes_in_issue_order : forall ops sched st,
  frun ops sched = Some st ->
  fs_inv ops st /\
  (all_done ops st = true ->
   forall k, f_locks st k = None /\
     ((f_fs st k = None /\
       forall i, (i < List.length ops)%nat -> is_eff (opn ops i) = true -> f_key (opn ops i) <> k) \/
      exists i v, (i < List.length ops)%nat /\ is_eff (opn ops i) = true /\ f_key (opn ops i) = k /\
                  f_phase st i = PDone v /\ f_fs st k = effect (opn ops i) /\
                  forall j w, is_eff (opn ops j) = true -> f_key (opn ops j) = k ->
                              f_phase st j = PDone w -> w <= v)).
Proof. exact versioned_writes_in_issue_order. Qed.

(** At every step of every schedule the (ghost) version of a file never decreases and the file content
    changes only when it increases: neither a stale write nor the re-creation of a cleaned-up lock
    entry can bring an older value back.  ([fs_inv] also records that a read observes [None] or the
    value of a write that had been applied by then - never a mixture, given atomic rename.) *)
Theorem C19_fs_version_monotone : forall ops st l st',
  fs_inv ops st -> fstep ops st l = Some st' ->
  forall k, f_ver st k <= f_ver st' k /\ (f_ver st' k = f_ver st k -> f_fs st' k = f_fs st k).
Proof. exact fstep_monotone. Qed.

(** a three-operation example: two writes and a remove on key 5 issued in that order, executed in the
    opposite order: the last issued (the remove) wins, earlier ones are skipped as stale *)
Example C19_ex_fs :
  let ops := [ {| f_key := 5; f_kind := FWrite 10 |}; {| f_key := 5; f_kind := FWrite 20 |}; {| f_key := 5; f_kind := FRemove |} ] in
  match frun ops [LFetch 0; LRef 0; LFetch 1; LRef 1; LFetch 2; LRef 2;
                  LExec 2; LClean 2; LExec 1; LExec 0; LClean 0; LClean 1] with
  | Some st => all_done ops st = true /\ f_fs st 5 = None /\ f_ver st 5 = 3
  | None => False
  end.
Proof. vm_compute. repeat split; reflexivity. Qed.

(** Non-vacuity *)
Example C19_ex_hist_ok :
  hist_ok (list Z) Z ex_apply ex_uid ex_refuses 7 (ex_mon 0 [])
    [CUpdate 7 (Some 1) (ex_mon 1 [1]); CUpdate 7 (Some 2) (ex_mon 2 [2; 1]); CCleanup true []; CUpdate 7 None (ex_mon 2 [2; 1])]
    (ex_mon 2 [2; 1]).
Proof.
  econstructor; [apply (c_update _ _ ex_apply ex_uid ex_refuses 7 (ex_mon 0 []) 1); [reflexivity | vm_compute; reflexivity | reflexivity]|].
  econstructor; [apply (c_update _ _ ex_apply ex_uid ex_refuses 7 (ex_mon 1 [1]) 2); [reflexivity | vm_compute; reflexivity | reflexivity]|].
  econstructor; [apply c_cleanup|]. econstructor; [apply c_full|]. constructor.
Qed.

(** with maximum_pending_updates = 2: update 1 is written as an update, update 2 consolidates (full
    monitor + lazy removal of 0..2); a crash after the monitor write with only the removal of update 1
    applied recovers monitor 2 *)
Example C19_ex_crash :
  read_with_updates (list Z) Z ex_apply ex_uid ex_refuses
    (view mkey_eqb (crash_state (list Z) Z ex_uid 2 [CNew 7 (ex_mon 0 []); CUpdate 7 (Some 1) (ex_mon 1 [1])]
                      (CUpdate 7 (Some 2) (ex_mon 2 [2; 1])) 3) [KUpd 7 1]) 7
  = ROk (ex_mon 2 [2; 1]).
Proof. vm_compute. reflexivity. Qed.

(** a later-issued operation that FAILS inside the lock and runs first does not cancel the earlier-issued
    write: the write still takes effect (the failing operation recorded no version) *)
Example C19_ex_fs_fail :
  let ops := [ {| f_key := 5; f_kind := FWrite 10 |}; {| f_key := 5; f_kind := FFail |} ] in
  match frun ops [LFetch 0; LRef 0; LFetch 1; LRef 1; LExec 1; LClean 1; LExec 0; LClean 0] with
  | Some st => all_done ops st = true /\ f_fs st 5 = Some 10 /\ f_locks st 5 = None
  | None => False
  end.
Proof. vm_compute. repeat split; reflexivity. Qed.

(** update 3 is refused by the monitor: ChainMonitor persists the full monitor; recovery returns it, and
    the store holds no update 3 *)
Example C19_ex_refused :
  hist_ok (list Z) Z ex_apply ex_uid ex_refuses 7 (ex_mon 0 [])
    [CUpdate 7 (Some 1) (ex_mon 1 [1]); CUpdate 7 (Some 2) (ex_mon 2 [2; 1]); CUpdate 7 None (ex_mon 3 [3; 2; 1])]
    (ex_mon 3 [3; 2; 1]) /\
  read_with_updates (list Z) Z ex_apply ex_uid ex_refuses
    (view mkey_eqb (crash_state (list Z) Z ex_uid 5
       [CNew 7 (ex_mon 0 []); CUpdate 7 (Some 1) (ex_mon 1 [1]); CUpdate 7 (Some 2) (ex_mon 2 [2; 1])]
       (CUpdate 7 None (ex_mon 3 [3; 2; 1])) 1) []) 7 = ROk (ex_mon 3 [3; 2; 1]).
Proof.
  split; [|vm_compute; reflexivity].
  econstructor; [apply (c_update _ _ ex_apply ex_uid ex_refuses 7 (ex_mon 0 []) 1); [reflexivity | vm_compute; reflexivity | reflexivity]|].
  econstructor; [apply (c_update _ _ ex_apply ex_uid ex_refuses 7 (ex_mon 1 [1]) 2); [reflexivity | vm_compute; reflexivity | reflexivity]|].
  econstructor; [apply (c_refused _ _ ex_apply ex_uid ex_refuses 7 (ex_mon 2 [2; 1]) 3); [reflexivity | vm_compute; reflexivity | reflexivity]|].
  constructor.
Qed.
