(** C01 — every commitment conserves the channel's funds and both peers agree on it.
    This file holds only theorem statements closed by [exact]; proofs are in Proofs/C01*.v.
    Amount layer: statements are about [Model/CommitAmounts.v] (hand transliteration of
    [SpecTxBuilder::build_commitment_transaction], [CommitmentTransaction] output values and
    [build_closing_transaction]) on top of the rs2v-GENERATED fee/dust/anchor functions. *)
Require Import LdkV.Prim.U64 LdkV.Prim.Rs2vLib LdkV.Gen.Consts LdkV.Gen.ChanUtilsFees LdkV.Gen.TxBuilder
  LdkV.Gen.C01Closing LdkV.Model.CommitAmounts LdkV.Model.Chan LdkV.Model.ChanSys LdkV.Model.CoopClose
  LdkV.Proofs.C01Amounts LdkV.Proofs.C01Limits LdkV.Proofs.C01Chan LdkV.Proofs.C01Close LdkV.Proofs.C01Agree.
From Coq Require Import Permutation.
Open Scope Z_scope.

(** For ALL channel types, sides, funders, channel values, balances, HTLC lists, feerates and dust limits
    within the Rust type ranges and the conditions under which the Rust does not hit a
    [checked_sub().unwrap()] ([commit_pre]): the computation succeeds without overflow, the trim is the
    partition by the dust predicate, the fee is itemised into non-negative items with the saturating
    (funder cannot afford the fee) branch explicit, and — whenever the funder can pay for the anchors —
    the transaction's outputs plus that fee are exactly the channel value. *)
Theorem C01_commit_conserves :
  forall ct local funder v s htlcs fr dust,
  commit_pre ct local funder v s htlcs fr dust ->
  exists ca,
    build_commitment ct local funder v s htlcs fr dust = Some ca /\
    build_commitment_safe ct local v htlcs fr dust = true /\
    Permutation (ca_nondust ca ++ ca_dust ca) htlcs /\
    Forall (fun h => h_is_dust ct fr dust h = true) (ca_dust ca) /\
    Forall (fun h => h_is_dust ct fr dust h = false) (ca_nondust ca) /\
    ca_commit_tx_fee_sat ca = commit_tx_fee_sat fr (Z.of_nat (List.length (ca_nondust ca))) ct /\
    (let '(vs, vr) := pre_dust_values funder ca in
     0 <= Z.min (ca_commit_tx_fee_sat ca) (funder_before_fee_sat funder ca) /\
     0 <= total_anchors_sat ct - sum_z (anchors_in_tx ct (ca_to_broadcaster_sat ca) (ca_to_countersignatory_sat ca) (ca_nondust ca)) /\
     0 <= vs + vr - ca_to_broadcaster_sat ca - ca_to_countersignatory_sat ca /\
     0 <= htlcs_msat (ca_dust ca) /\ 0 <= htlcs_rem (ca_nondust ca) /\
     0 <= ca_local_balance_before_fee_msat ca mod 1000 < 1000 /\
     0 <= ca_remote_balance_before_fee_msat ca mod 1000 < 1000 /\
     (if funder then vs else vr) =
       funder_before_fee_sat funder ca - Z.min (ca_commit_tx_fee_sat ca) (funder_before_fee_sat funder ca)) /\
    (anchors_affordable ct local funder v s htlcs ->
     exists outs fee_paid,
       commit_tx_outputs ct v (ca_to_broadcaster_sat ca) (ca_to_countersignatory_sat ca) (ca_nondust ca) = Some outs /\
       sum_z outs + fee_paid = v /\ 0 <= fee_paid /\
       fee_breakdown_msat ct funder ca mod 1000 = 0 /\
       (if ctf_supports_anchor_zero_fee_commitments ct
        then
          let t := fee_breakdown_msat ct funder ca / 1000 in
          fee_paid = t - Z.min P2A_MAX_VALUE t /\
          sum_z outs = ca_to_broadcaster_sat ca + ca_to_countersignatory_sat ca + htlcs_sat (ca_nondust ca)
                       + Z.min P2A_MAX_VALUE t
        else
          1000 * fee_paid = fee_breakdown_msat ct funder ca /\
          sum_z outs = ca_to_broadcaster_sat ca + ca_to_countersignatory_sat ca + htlcs_sat (ca_nondust ca)
                       + sum_z (anchors_in_tx ct (ca_to_broadcaster_sat ca) (ca_to_countersignatory_sat ca) (ca_nondust ca)))).
Proof. exact commit_conserves. Qed.

(** Nobody is paid more than the whole-satoshi part of its own balance; the party that does not pay the
    fee is paid exactly that (or nothing if it is below the broadcaster's dust limit); every balance
    output is 0 or at least the dust limit. *)
Theorem C01_commit_outputs_vs_balances :
  forall ct local funder v s htlcs fr dust ca,
  commit_pre ct local funder v s htlcs fr dust ->
  build_commitment ct local funder v s htlcs fr dust = Some ca ->
  let L := htlcs_msat (filter (fun h => Bool.eqb (ho_offered h) local) htlcs) in
  let R := htlcs_msat (filter (fun h => negb (Bool.eqb (ho_offered h) local)) htlcs) in
  let to_holder := if local then ca_to_broadcaster_sat ca else ca_to_countersignatory_sat ca in
  let to_cp := if local then ca_to_countersignatory_sat ca else ca_to_broadcaster_sat ca in
  0 <= to_holder <= (s - L) / 1000 /\ 0 <= to_cp <= (v * 1000 - s - R) / 1000 /\
  (to_holder = 0 \/ dust <= to_holder) /\ (to_cp = 0 \/ dust <= to_cp) /\
  (funder = false -> to_holder = if dust <=? (s - L) / 1000 then (s - L) / 1000 else 0) /\
  (funder = true -> to_cp = if dust <=? (v * 1000 - s - R) / 1000 then (v * 1000 - s - R) / 1000 else 0).
Proof. exact commit_outputs_vs_balances. Qed.

(** The hypothesis [anchors_affordable] of the conservation statement cannot be dropped: with the
    saturating subtraction, a funder that cannot pay for the anchors yields outputs exceeding the
    funding value. (So the protocol layer must never sign such a commitment.) *)
Theorem C01_commit_anchors_precondition_needed :
  exists v s ca outs,
    commit_pre CT_Anchors true true v s [] 2500 354 /\
    build_commitment CT_Anchors true true v s [] 2500 354 = Some ca /\
    commit_tx_outputs CT_Anchors v (ca_to_broadcaster_sat ca) (ca_to_countersignatory_sat ca) (ca_nondust ca) = Some outs /\
    sum_z outs > v.
Proof. exact anchors_unaffordable_overspends. Qed.

(** The builder's dust test and the generated [is_dust] used by the commitment statistics and the send
    limits are the same predicate. *)
Theorem C01_dust_predicates_agree :
  forall ct local fr dust outbound amt,
  (ctf_supports_anchor_zero_fee_commitments ct = true -> fr = 0) ->
  bc_is_dust ct fr dust (Bool.eqb outbound local) amt
  = is_dust (mkHTLCAmountDirection outbound amt) local fr dust ct.
Proof. exact is_dust_agree. Qed.

(** Cooperative close: with the fee affordable by the funder each party is paid the whole-satoshi part
    of its balance less the fee if it is the funder, zeroed iff that is at most the holder's dust limit
    (or the remote output is skipped); the total fee is the proposed one; outputs, fee, forfeited dust
    and the (< 2 sat) msat remainders add up to the channel value. Otherwise it is an error. *)
Theorem C01_coop_close :
  forall (funder skip : bool) (v s fee hd : Z),
  0 <= v -> 0 <= s <= v * 1000 -> 0 <= fee -> 0 <= hd ->
  let bal_h := s / 1000 in
  let bal_c := (v * 1000 - s) / 1000 in
  let fh := if funder then fee else 0 in
  let fc := if funder then 0 else fee in
  (fh <= bal_h -> fc <= bal_c ->
     exists h c, build_closing funder skip v s fee hd = ROk (h, c, fee) /\
       h = (if bal_h - fh <=? hd then 0 else bal_h - fh) /\
       c = (if skip || (bal_c - fc <=? hd) then 0 else bal_c - fc) /\
       0 <= h <= bal_h - fh /\ 0 <= c <= bal_c - fc /\
       1000 * v = 1000 * (h + c + fee) + 1000 * ((bal_h - fh - h) + (bal_c - fc - c))
                  + s mod 1000 + (v * 1000 - s) mod 1000) /\
  (fh > bal_h \/ fc > bal_c -> is_ok (build_closing funder skip v s fee hd) = false).
Proof. exact closing_spec. Qed.

(** What the protocol's acceptance check means: an [Ok] of the GENERATED [get_next_commitment_stats]
    (no fee spike) says that the parties can pay for their HTLCs and the funder for anchors plus the
    fee of the non-dust HTLCs (+ [addl]); the balances it returns are exactly what is left. *)
Theorem C01_check_ok_means_payable :
  forall local funder v s hs addl fr lim dust ct st,
  stats_range v s hs addl fr dust ->
  get_next_commitment_stats local funder v s hs addl fr false lim dust ct = ROk st ->
  let fee := commit_tx_fee_sat fr (dirs_nondust local fr dust ct hs + addl) ct in
  let anchors := total_anchors_sat ct in
  s <= v * 1000 /\ dirs_out_msat hs <= s /\ dirs_in_msat hs <= v * 1000 - s /\
  (if funder
   then anchors * 1000 + fee * 1000 <= s - dirs_out_msat hs /\
        ncs_holder_balance_msat st = s - dirs_out_msat hs - anchors * 1000 - fee * 1000 /\
        ncs_counterparty_balance_msat st = v * 1000 - s - dirs_in_msat hs
   else anchors * 1000 + fee * 1000 <= v * 1000 - s - dirs_in_msat hs /\
        ncs_holder_balance_msat st = s - dirs_out_msat hs /\
        ncs_counterparty_balance_msat st = v * 1000 - s - dirs_in_msat hs - anchors * 1000 - fee * 1000).
Proof. exact stats_ok_spec. Qed.

(** Every commitment that passes that check satisfies the preconditions of [C01_commit_conserves]
    including [anchors_affordable]; it is built, its outputs and a non-negative fee add up to the channel
    value, the funder pays the whole fee (not the saturating branch), and the balances the check
    computed are the ones paid out (before dust zeroing). *)
Theorem C01_accepted_commitment_conserves :
  forall local funder v s hs fr lim dust ct st,
  stats_range v s hs 0 fr dust -> ct_ok ct = true ->
  (ctf_supports_anchor_zero_fee_commitments ct = true -> fr = 0) ->
  get_next_commitment_stats local funder v s hs 0 fr false lim dust ct = ROk st ->
  let htlcs := to_outs local 0 hs in
  commit_pre ct local funder v s htlcs fr dust /\
  anchors_affordable ct local funder v s htlcs /\
  exists ca outs fee_paid,
    build_commitment ct local funder v s htlcs fr dust = Some ca /\
    commit_tx_outputs ct v (ca_to_broadcaster_sat ca) (ca_to_countersignatory_sat ca) (ca_nondust ca) = Some outs /\
    sum_z outs + fee_paid = v /\ 0 <= fee_paid /\
    ca_commit_tx_fee_sat ca <= funder_before_fee_sat funder ca /\
    pre_dust_values funder ca = (ncs_holder_balance_msat st / 1000, ncs_counterparty_balance_msat st / 1000).
Proof. exact accepted_commitment_conserves. Qed.

(** Protocol layer ([Model/Chan.v], [Model/ChanSys.v]; tied to the code by per-step trace
    correspondence). For ALL label lists and oracles — sends, claims, fails, fee updates, single-message
    deliveries in any order, disconnections and reconnections — starting from any well-formed pair of
    channels: in every commitment either node builds no HTLC occurs twice, the HTLCs in it are exactly
    the pending ones whose state says "included", and the builder's non-dust ++ dust lists are a
    permutation of them: each pending HTLC exactly once, as an output or as dust. *)
Theorem C01_each_htlc_once :
  forall s0 ls s x g number,
  sys_wf s0 -> run s0 ls = ROk s ->
  let c := node s x in
  let v := build_view c number g in
  NoDup (map view_key (cv_htlcs v)) /\
  (forall p, In (false, p) (cv_htlcs v) <-> exists h, In h (c_in c) /\ ih h = p /\ in_included (ist h) g = true) /\
  (forall p, In (true, p) (cv_htlcs v) <-> exists h, In h (c_out c) /\ oh h = p /\ out_included (ost h) g = true) /\
  (forall local ca, view_amounts c local v = Some ca ->
     Permutation (ca_nondust ca ++ ca_dust ca)
       (map (fun oh => mkHtlcOut (Bool.eqb (fst oh) local) (p_amt (snd oh)) (p_tag (snd oh))) (cv_htlcs v))).
Proof. exact each_htlc_once. Qed.

(** For ALL label lists: each side's [value_to_self_msat] is its opening balance plus the HTLCs
    irrevocably settled to it minus those settled away, where "irrevocably settled" is: claimed and
    removed by the peer's revoke_and_ack ([ledger] adds them up step by step). No other step moves it. *)
Theorem C01_balance_ledger :
  forall ls s0 s x,
  run s0 ls = ROk s ->
  c_self_msat (node s x) = c_self_msat (node s0 x) + fst (ledger s0 ls x) - snd (ledger s0 ls x).
Proof. exact balance_ledger. Qed.

(** The balance a commitment uses is that plus our claims not yet in the peer's revocation, minus the
    peer's claims already out of this commitment ([build_commitment_transaction]'s adjustments). *)
Theorem C01_commitment_balance :
  forall c number g,
  cv_to_self_msat (build_view c number g) = c_self_msat c + value_to_self_claimed c g - value_to_remote_claimed c g.
Proof. reflexivity. Qed.

(** Send limits at [send_htlc]: outside [minimum, limit] the send is refused (an error carries no state:
    nothing changes); inside, on a connected channel, it is accepted and changes nothing but the new
    HTLC (outbound list or holding cell). *)
Theorem C01_limits_tight :
  forall limit minimum c amt tag,
  amt < minimum \/ limit < amt -> is_ok (send_htlc_checked limit minimum c amt tag) = false.
Proof. exact limits_tight. Qed.

Theorem C01_limits_accept_sender :
  forall limit minimum c amt tag,
  0 < amt -> minimum <= amt <= limit -> c_disconnected c = false ->
  exists c' b, send_htlc_checked limit minimum c amt tag = ROk (c', b) /\
    (if b then c_out c' = c_out c ++ [mkOut (mkP (c_next_holder_id c) amt tag) OS_LocalAnnounced] /\ c_hc c' = c_hc c
     else c_hc c' = c_hc c ++ [HC_Add amt tag] /\ c_out c' = c_out c) /\
    c_in c' = c_in c /\ c_self_msat c' = c_self_msat c.
Proof. exact limits_accept. Qed.

(** The "keep at least one output" guard of the send limits (GENERATED
    [adjust_min_max_htlc_if_max_dust_htlc_produces_no_output], as [get_available_balances] calls it): the
    interval only shrinks, and every positive amount inside it that the holder owns is, on the HOLDER's
    commitment, non-dust under the HOLDER's dust limit (+ HTLC-timeout fee) or leaves an output there, and
    on the COUNTERPARTY's commitment non-dust under the COUNTERPARTY's dust limit (+ HTLC-success fee) or
    leaves an output there. (The two limits are distinct arguments: swapping them breaks the proof.) *)
Theorem C01_send_limits_keep_an_output :
  forall funder hb cb lnd rnd fr k ct mn cap mn' cap',
  guard_range hb cb fr lnd (cst_holder_dust_limit_satoshis k) ->
  guard_range hb cb fr rnd (cst_counterparty_dust_limit_satoshis k) ->
  adjust_min_max_htlc_if_max_dust_htlc_produces_no_output funder hb cb lnd rnd fr k ct mn cap = (mn', cap') ->
  mn <= mn' /\ cap' <= cap /\
  forall a, 0 < a -> mn' <= a <= cap' -> a <= hb ->
    (min_nondust_msat true fr (cst_holder_dust_limit_satoshis k) ct <= a \/
     has_output funder (hb - a) cb fr lnd (cst_holder_dust_limit_satoshis k) ct = true) /\
    (min_nondust_msat false fr (cst_counterparty_dust_limit_satoshis k) ct <= a \/
     has_output funder (hb - a) cb fr rnd (cst_counterparty_dust_limit_satoshis k) ct = true).
Proof. exact send_limits_keep_an_output. Qed.

(** ** Agreement between the two peers

    The FULL statement is NOT proved (kept here as a comment, nothing is admitted):

      C01_agreement : forall s0 ls s1, sys_wf2 s0 (a freshly opened channel pair) ->
        run s0 ls = ROk s1 (ANY list of labels/oracles of Model/ChanSys.v, any length) ->
        forall x v rest, out_queue s1 x = M_Commit v :: rest -> c_disconnected (node s1 (negb x)) = false ->
          mirror_eqb (c_value_sat ..) v (build_view (node s1 (negb x)) (c_holder_cn ..) false) = true.

    Missing for it: the two-party inductive invariant (the per-HTLC joint state of sender and receiver
    LocalAnnounced<->absent/RemoteAnnounced, Committed<->AwaitingRemoteRevokeToAnnounce/
    AwaitingAnnouncedRemoteRevoke/Committed, RemoteRemoved<->LocalRemoved, AwaitingRemoteRevokeToRemove/
    AwaitingRemovedRemoteRevoke<->LocalRemoved/gone, indexed by which of add / remove / commitment_signed /
    revoke_and_ack messages are still in the two queues, plus the balance and feerate relations and the
    reestablish roll-back) and its preservation lemma for each of the eight labels.

    What IS proved, [C01_agreement_bounded]: the same conclusion for every label list (ALL interleavings,
    including single-message deliveries, holding-cell frees, a fee update, disconnect/reconnect) over the
    explicit alphabet [ag_alpha] up to an explicit depth from each of the six start states [ag_starts]
    (fresh channel; both directions committed; two HTLCs in different states per direction with a claim in
    a holding cell and commitment_signed in flight both ways; the same after a disconnect+reconnect; a fee
    update in flight; disconnected) — by exhaustive exploration inside Coq ([explore], sound by
    [explore_sound]), not by testing. The commitment both sides then sign/validate has the same number,
    the same feerate, mirrored HTLC sets and complementary balances, hence (being a function of these,
    [view_amounts]) the same outputs; conservation for it is [C01_commit_conserves]. *)
Theorem C01_agreement_bounded :
  forall start depth, In (start, depth) ag_starts ->
  forall ls s1, (List.length ls < depth)%nat -> Forall (fun l => In l ag_alpha) ls ->
  sys_steps ag_oracle start ls = ROk s1 ->
  forall x v rest, out_queue s1 x = M_Commit v :: rest -> c_disconnected (node s1 (negb x)) = false ->
    cv_number v = c_holder_cn (node s1 (negb x)) /\
    mirror_eqb (c_value_sat (node s1 (negb x))) v
      (build_view (node s1 (negb x)) (c_holder_cn (node s1 (negb x))) false) = true.
Proof. exact agreement_bounded. Qed.

Example C01_agreement_start_nontrivial :
  let s := after pre2 in
  map (fun h => (p_id (oh h), out_code (ost h))) (c_out (s_n0 s)) = [(0, 1); (1, 0)] /\
  map (fun h => (p_id (ih h), in_code (ist h))) (c_in (s_n1 s)) = [(0, 3); (1, 0)] /\
  map (fun h => (p_id (oh h), out_code (ost h))) (c_out (s_n1 s)) = [(0, 1); (1, 0)] /\
  map (fun h => (p_id (ih h), in_code (ist h))) (c_in (s_n0 s)) = [(0, 3)] /\
  c_hc (s_n1 s) = [HC_Claim 0] /\
  (exists v, s_q01 s = [M_Commit v]) /\ (exists h v, s_q10 s = [M_Add h; M_Commit v]).
Proof. exact ag_start_nontrivial. Qed.

Example C01_agreement_starts_reachable :
  forallb (fun p => match sys_steps ag_oracle ex_sys p with ROk _ => true | RErr _ => false end)
          [pre1; pre2; pre3; pre4; pre5] = true.
Proof. exact ag_prefixes_run. Qed.

(** Cooperative close, fee-range negotiation ([Model/CoopClose.v] over the GENERATED
    [calculate_closing_fee_limits] arithmetic and [closing_signed] clamps): the non-funder's maximum is the
    funder's whole-satoshi balance; whenever the funder can pay its OWN minimum fee, the negotiation fails only
    if the two ranges are disjoint or the non-funder's minimum exceeds the funder's balance (finding F6:
    the middle clause is its witness for ALL such inputs), nobody is ever asked to build a closing
    transaction for more than the funder owns, the agreed fee is in both ranges and within the funder's
    balance, and the transaction pays the funder floor(balance)
    less the fee and the non-funder floor(balance) (dust-zeroed). *)
Theorem C01_coop_close_negotiation :
  forall kf kn v sf sn,
  close_pre kf kn v sf sn ->
  let bal_f := sf / 1000 in
  let '(f_min, f_max) := closing_fee_limits kf true v sf in
  let '(n_min, n_max) := closing_fee_limits kn false v sn in
  n_max = bal_f /\
  (f_min <= bal_f ->
     (f_max < n_min -> is_ok (negotiate kf kn v sf sn) = false) /\
     (bal_f < n_min <= f_max -> f_min < bal_f -> is_ok (negotiate kf kn v sf sn) = false) /\
     (n_min <= f_max -> n_min <= bal_f ->
        exists fee built, negotiate kf kn v sf sn = ROk (fee, built) /\
          f_min <= fee <= f_max /\ n_min <= fee <= n_max /\ fee <= bal_f /\
          Forall (fun f => 0 <= f <= bal_f) built /\
          exists h c, build_closing true false v sf fee (cs_dust kf) = ROk (h, c, fee) /\
            h = (if bal_f - fee <=? cs_dust kf then 0 else bal_f - fee) /\
            c = (if sn / 1000 <=? cs_dust kf then 0 else sn / 1000))).
Proof. exact coop_close. Qed.

Example C01_close_pre_inhabited : close_pre ex_kf ex_kn 100000 1540000 98460000.
Proof. exact ex_close_pre. Qed.
Example C01_negotiate_example : negotiate ex_kf ex_kn 100000 1540000 98460000 = ROk (1540, [202; 1540]).
Proof. exact ex_negotiate. Qed.

(** Witnesses (vm_compute over the generated code / the closing model) of the two findings recorded in
    known_findings.json: the property's "limits are honoured by the peer" fails for a non-funder sending to a
    funder at the boundary (F2), and the funder's own minimum closing fee can exceed its balance, in which case
    the closing transaction cannot be built (F1). *)
Theorem C01_limits_sound_peer_refuted :
  let k := mkChannelConstraints 354 0 354 0 1 100000000 50 in
  let sender := get_channel_stats false false 100000 1000000 [mkHTLCAmountDirection false 96871999] 0 1000 false
                  (Some 1000) (1000 * 197628) k CT_Anchors in
  let receiver_htlcs := [mkHTLCAmountDirection false 1000000; mkHTLCAmountDirection true 96871999] in
  (exists st, sender = ROk st /\
     ab_next_outbound_htlc_limit_msat (cs_available_balances st) = 1000000 /\
     ab_next_outbound_htlc_minimum_msat (cs_available_balances st) <= 1000000) /\
  is_ok (get_next_commitment_stats true true 100000 99000000 receiver_htlcs 1 1000 false (Some 1000) 354 CT_Anchors) = false /\
  is_ok (get_next_commitment_stats true true 100000 99000000 receiver_htlcs 0 1000 false (Some 1000) 354 CT_Anchors) = true.
Proof. exact limit_not_accepted_by_funder_peer_witness. Qed.

Theorem C01_coop_close_refuted_when_fee_exceeds_funder_balance :
  is_ok (build_closing true false 100000 1540000 3370 354) = false /\
  is_ok (build_closing true false 100000 1540000 1540 354) = true.
Proof. exact coop_close_fee_above_funder_balance_witness. Qed.

(** Non-vacuity of the protocol-layer theorems: a well-formed initial pair of channels and a schedule
    (two HTLCs, one through the holding cell, one claimed) that the system accepts, with its result. *)
Example C01_sys_wf_inhabited : sys_wf ex_sys.
Proof. exact ex_sys_wf. Qed.

Example C01_run_example :
  exists s, run ex_sys ex_labels = ROk s /\
  c_self_msat (s_n0 s) = 65000000 /\ c_self_msat (s_n1 s) = 35000000 /\
  map (fun h => (p_id (ih h), in_code (ist h))) (c_in (s_n0 s)) = [(0, 3)] /\
  ledger ex_sys ex_labels false = (0, 5000000).
Proof. exact ex_run_ok. Qed.

(** Non-vacuity: a concrete instance satisfies the preconditions (anchors channel, counterparty
    commitment, two of four HTLCs trimmed at the threshold), and its computed value. *)
Example C01_commit_pre_inhabited :
  commit_pre CT_Anchors false true 1000000 600000000 ex_htlcs 2500 354
  /\ anchors_affordable CT_Anchors false true 1000000 600000000 ex_htlcs.
Proof. exact ex_commit_pre. Qed.

Example C01_commit_example_value :
  option_map (fun ca => (ca_to_broadcaster_sat ca, ca_to_countersignatory_sat ca,
                         map ho_tag (ca_nondust ca), map ho_tag (ca_dust ca), ca_commit_tx_fee_sat ca))
    (build_commitment CT_Anchors false true 1000000 600000000 ex_htlcs 2500 354)
  = Some (394999, 594962, [1; 3], [2; 4], 3670).
Proof. exact ex_commit_value. Qed.
