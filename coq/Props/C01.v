(** C01 — every commitment conserves the channel's funds and both peers agree on it.
    This file holds only theorem statements closed by [exact]; proofs are in Proofs/C01*.v.
    Amount layer: statements are about [Model/CommitAmounts.v] (hand transliteration of
    [SpecTxBuilder::build_commitment_transaction], [CommitmentTransaction] output values and
    [build_closing_transaction]) on top of the rs2v-GENERATED fee/dust/anchor functions. *)
Require Import LdkV.Prim.U64 LdkV.Prim.Rs2vLib LdkV.Gen.Consts LdkV.Gen.ChanUtilsFees LdkV.Gen.TxBuilder
  LdkV.Model.CommitAmounts LdkV.Proofs.C01Amounts.
From Coq Require Import Permutation.
Open Scope Z_scope.

(** For ALL channel types, sides, funders, channel values, balances, HTLC lists, feerates and dust limits
    within the Rust type ranges and the conditions under which the Rust does not hit a
    [checked_sub().unwrap()] ([commit_pre]): the computation succeeds without overflow, the trim is the
    partition by the dust predicate, the fee is itemised into non-negative items with the saturating
    (funder cannot afford the fee) branch explicit, and — whenever the funder can pay for the anchors —
    the transaction's outputs plus that fee are exactly the channel value. *)
Theorem C01_commit_conserves :
  forall ct local funder v s htlcs fr dust,
  commit_pre ct local funder v s htlcs fr dust ->
  exists ca,
    build_commitment ct local funder v s htlcs fr dust = Some ca /\
    build_commitment_safe ct local v htlcs fr dust = true /\
    Permutation (ca_nondust ca ++ ca_dust ca) htlcs /\
    Forall (fun h => h_is_dust ct fr dust h = true) (ca_dust ca) /\
    Forall (fun h => h_is_dust ct fr dust h = false) (ca_nondust ca) /\
    ca_commit_tx_fee_sat ca = commit_tx_fee_sat fr (Z.of_nat (List.length (ca_nondust ca))) ct /\
    (let '(vs, vr) := pre_dust_values funder ca in
     0 <= Z.min (ca_commit_tx_fee_sat ca) (funder_before_fee_sat funder ca) /\
     0 <= total_anchors_sat ct - sum_z (anchors_in_tx ct (ca_to_broadcaster_sat ca) (ca_to_countersignatory_sat ca) (ca_nondust ca)) /\
     0 <= vs + vr - ca_to_broadcaster_sat ca - ca_to_countersignatory_sat ca /\
     0 <= htlcs_msat (ca_dust ca) /\ 0 <= htlcs_rem (ca_nondust ca) /\
     0 <= ca_local_balance_before_fee_msat ca mod 1000 < 1000 /\
     0 <= ca_remote_balance_before_fee_msat ca mod 1000 < 1000 /\
     (if funder then vs else vr) =
       funder_before_fee_sat funder ca - Z.min (ca_commit_tx_fee_sat ca) (funder_before_fee_sat funder ca)) /\
    (anchors_affordable ct local funder v s htlcs ->
     exists outs fee_paid,
       commit_tx_outputs ct v (ca_to_broadcaster_sat ca) (ca_to_countersignatory_sat ca) (ca_nondust ca) = Some outs /\
       sum_z outs + fee_paid = v /\ 0 <= fee_paid /\
       fee_breakdown_msat ct funder ca mod 1000 = 0 /\
       (if ctf_supports_anchor_zero_fee_commitments ct
        then
          let t := fee_breakdown_msat ct funder ca / 1000 in
          fee_paid = t - Z.min P2A_MAX_VALUE t /\
          sum_z outs = ca_to_broadcaster_sat ca + ca_to_countersignatory_sat ca + htlcs_sat (ca_nondust ca)
                       + Z.min P2A_MAX_VALUE t
        else
          1000 * fee_paid = fee_breakdown_msat ct funder ca /\
          sum_z outs = ca_to_broadcaster_sat ca + ca_to_countersignatory_sat ca + htlcs_sat (ca_nondust ca)
                       + sum_z (anchors_in_tx ct (ca_to_broadcaster_sat ca) (ca_to_countersignatory_sat ca) (ca_nondust ca)))).
Proof. exact commit_conserves. Qed.

(** Nobody is paid more than the whole-satoshi part of its own balance; the party that does not pay the
    fee is paid exactly that (or nothing if it is below the broadcaster's dust limit); every balance
    output is 0 or at least the dust limit. *)
Theorem C01_commit_outputs_vs_balances :
  forall ct local funder v s htlcs fr dust ca,
  commit_pre ct local funder v s htlcs fr dust ->
  build_commitment ct local funder v s htlcs fr dust = Some ca ->
  let L := htlcs_msat (filter (fun h => Bool.eqb (ho_offered h) local) htlcs) in
  let R := htlcs_msat (filter (fun h => negb (Bool.eqb (ho_offered h) local)) htlcs) in
  let to_holder := if local then ca_to_broadcaster_sat ca else ca_to_countersignatory_sat ca in
  let to_cp := if local then ca_to_countersignatory_sat ca else ca_to_broadcaster_sat ca in
  0 <= to_holder <= (s - L) / 1000 /\ 0 <= to_cp <= (v * 1000 - s - R) / 1000 /\
  (to_holder = 0 \/ dust <= to_holder) /\ (to_cp = 0 \/ dust <= to_cp) /\
  (funder = false -> to_holder = if dust <=? (s - L) / 1000 then (s - L) / 1000 else 0) /\
  (funder = true -> to_cp = if dust <=? (v * 1000 - s - R) / 1000 then (v * 1000 - s - R) / 1000 else 0).
Proof. exact commit_outputs_vs_balances. Qed.

(** The hypothesis [anchors_affordable] of the conservation statement cannot be dropped: with the
    saturating subtraction, a funder that cannot pay for the anchors yields outputs exceeding the
    funding value. (So the protocol layer must never sign such a commitment.) *)
Theorem C01_commit_anchors_precondition_needed :
  exists v s ca outs,
    commit_pre CT_Anchors true true v s [] 2500 354 /\
    build_commitment CT_Anchors true true v s [] 2500 354 = Some ca /\
    commit_tx_outputs CT_Anchors v (ca_to_broadcaster_sat ca) (ca_to_countersignatory_sat ca) (ca_nondust ca) = Some outs /\
    sum_z outs > v.
Proof. exact anchors_unaffordable_overspends. Qed.

(** The builder's dust test and the generated [is_dust] used by the commitment statistics and the send
    limits are the same predicate. *)
Theorem C01_dust_predicates_agree :
  forall ct local fr dust outbound amt,
  (ctf_supports_anchor_zero_fee_commitments ct = true -> fr = 0) ->
  bc_is_dust ct fr dust (Bool.eqb outbound local) amt
  = is_dust (mkHTLCAmountDirection outbound amt) local fr dust ct.
Proof. exact is_dust_agree. Qed.

(** Cooperative close: with the fee affordable by the funder each party is paid the whole-satoshi part
    of its balance less the fee if it is the funder, zeroed iff that is at most the holder's dust limit
    (or the remote output is skipped); the total fee is the proposed one; outputs, fee, forfeited dust
    and the (< 2 sat) msat remainders add up to the channel value. Otherwise it is an error. *)
Theorem C01_coop_close :
  forall (funder skip : bool) (v s fee hd : Z),
  0 <= v -> 0 <= s <= v * 1000 -> 0 <= fee -> 0 <= hd ->
  let bal_h := s / 1000 in
  let bal_c := (v * 1000 - s) / 1000 in
  let fh := if funder then fee else 0 in
  let fc := if funder then 0 else fee in
  (fh <= bal_h -> fc <= bal_c ->
     exists h c, build_closing funder skip v s fee hd = ROk (h, c, fee) /\
       h = (if bal_h - fh <=? hd then 0 else bal_h - fh) /\
       c = (if skip || (bal_c - fc <=? hd) then 0 else bal_c - fc) /\
       0 <= h <= bal_h - fh /\ 0 <= c <= bal_c - fc /\
       1000 * v = 1000 * (h + c + fee) + 1000 * ((bal_h - fh - h) + (bal_c - fc - c))
                  + s mod 1000 + (v * 1000 - s) mod 1000) /\
  (fh > bal_h \/ fc > bal_c -> is_ok (build_closing funder skip v s fee hd) = false).
Proof. exact closing_spec. Qed.

(** Non-vacuity: a concrete instance satisfies the preconditions (anchors channel, counterparty
    commitment, two of four HTLCs trimmed at the threshold), and its computed value. *)
Example C01_commit_pre_inhabited :
  commit_pre CT_Anchors false true 1000000 600000000 ex_htlcs 2500 354
  /\ anchors_affordable CT_Anchors false true 1000000 600000000 ex_htlcs.
Proof. exact ex_commit_pre. Qed.

Example C01_commit_example_value :
  option_map (fun ca => (ca_to_broadcaster_sat ca, ca_to_countersignatory_sat ca,
                         map ho_tag (ca_nondust ca), map ho_tag (ca_dust ca), ca_commit_tx_fee_sat ca))
    (build_commitment CT_Anchors false true 1000000 600000000 ex_htlcs 2500 354)
  = Some (394999, 594962, [1; 3], [2; 4], 3670).
Proof. exact ex_commit_value. Qed.
