(** C08 — HTLC deadlines: the node acts before money can be lost to a timeout.
    This file holds only theorem statements closed by [exact]; proofs are in Proofs/C08.v.
    All predicates and constants are the definitions REGENERATED from the Rust source by tools/rs2v
    (Gen/Consts.v, Gen/CltvChecks.v) on every run. *)
Require Import LdkV.Prim.U64 LdkV.Gen.Consts LdkV.Gen.CltvChecks LdkV.Gen.CltvCallSites LdkV.Model.CltvHand LdkV.Model.Timeline LdkV.Proofs.C08.
Open Scope Z_scope.

Theorem C08_static_assertions :
  MIN_CLTV_EXPIRY_DELTA >= 2 * LATENCY_GRACE_PERIOD_BLOCKS + 2 * MAX_BLOCKS_FOR_CONF + ANTI_REORG_DELAY /\
  _ASSUMED_COUNTERPARTY_CLTV_CLAIM_BUFFER >= CLTV_CLAIM_BUFFER /\
  MIN_CLTV_EXPIRY_DELTA >= 2 * LATENCY_GRACE_PERIOD_BLOCKS - 1 + _ASSUMED_COUNTERPARTY_CLTV_CLAIM_BUFFER /\
  MAX_BLOCKS_FOR_CONF > COUNTERPARTY_CLAIMABLE_WITHIN_BLOCKS_PINNABLE.
Proof. exact static_assertions. Qed.

Theorem C08_constant_relations :
  CLTV_CLAIM_BUFFER >= 2 * MAX_BLOCKS_FOR_CONF /\
  HTLC_FAIL_BACK_BUFFER >= CLTV_CLAIM_BUFFER + LATENCY_GRACE_PERIOD_BLOCKS /\
  MIN_FINAL_CLTV_EXPIRY_DELTA >= HTLC_FAIL_BACK_BUFFER + 3 /\
  0 < LATENCY_GRACE_PERIOD_BLOCKS /\ 0 < ANTI_REORG_DELAY /\ 0 < MAX_BLOCKS_FOR_CONF /\
  MIN_CLTV_EXPIRY_DELTA < CLTV_FAR_FAR_AWAY.
Proof. exact constant_relations. Qed.

Theorem C08_forward_margins : forall h out inn d,
  check_incoming_htlc_cltv h out inn d = ROk tt <->
  (inn >= out + d /\ inn > h + HTLC_FAIL_BACK_BUFFER /\ inn <= h + CLTV_FAR_FAR_AWAY /\
   out > h + LATENCY_GRACE_PERIOD_BLOCKS).
Proof. exact fwd_ok_iff. Qed.

Theorem C08_forward_errors : forall h out inn d,
  (inn < out + d -> check_incoming_htlc_cltv h out inn d = RErr "IncorrectCLTVExpiry") /\
  (inn >= out + d -> inn <= h + HTLC_FAIL_BACK_BUFFER ->
     check_incoming_htlc_cltv h out inn d = RErr "CLTVExpiryTooSoon") /\
  (inn >= out + d -> inn > h + HTLC_FAIL_BACK_BUFFER -> inn > h + CLTV_FAR_FAR_AWAY ->
     check_incoming_htlc_cltv h out inn d = RErr "CLTVExpiryTooFar") /\
  (inn >= out + d -> inn > h + HTLC_FAIL_BACK_BUFFER -> inn <= h + CLTV_FAR_FAR_AWAY ->
     out <= h + LATENCY_GRACE_PERIOD_BLOCKS ->
     check_incoming_htlc_cltv h out inn d = RErr "OutgoingCLTVTooSoon").
Proof. exact fwd_errors. Qed.

Theorem C08_forward_no_panic : forall h out inn d,
  0 <= h -> h + CLTV_FAR_FAR_AWAY < 2 ^ 32 -> 0 <= out < 2 ^ 32 -> 0 <= d < 2 ^ 16 ->
  check_incoming_htlc_cltv_safe h out inn d = true.
Proof. exact fwd_safe. Qed.

Theorem C08_receive_margins : forall cltv h,
  0 <= h ->
  final_hop_cltv_too_soon cltv h = false ->
  cltv > h + HTLC_FAIL_BACK_BUFFER + 1 /\
  claim_deadline cltv > h + 1 /\
  check_onchain_timeout_safe cltv h = true /\
  (forall h', h' < claim_deadline cltv -> check_onchain_timeout cltv h' = false) /\
  (forall h', claim_deadline cltv <= h' -> check_onchain_timeout cltv h' = true).
Proof. exact receive_margins. Qed.

Theorem C08_failback_before_onchain : forall cltv h,
  h < claim_deadline cltv + LATENCY_GRACE_PERIOD_BLOCKS ->
  should_broadcast_htlc_timeout false cltv h true = false.
Proof. exact failback_before_onchain. Qed.

Theorem C08_claim_in_time : forall cltv h0 t,
  h0 <= cltv - CLTV_CLAIM_BUFFER ->
  claim_timeline_ok cltv h0 t ->
  ct_H t = cltv - CLTV_CLAIM_BUFFER /\ ct_c2 t <= cltv.
Proof. exact claim_in_time. Qed.

Theorem C08_outbound_grace : forall expiry H,
  should_broadcast_htlc_timeout true expiry H false = true <-> H >= expiry + LATENCY_GRACE_PERIOD_BLOCKS.
Proof. exact outbound_grace. Qed.

Theorem C08_no_onchain_without_preimage : forall cltv H,
  should_broadcast_htlc_timeout false cltv H false = false.
Proof. exact inbound_no_preimage. Qed.

Theorem C08_failback_after_burial : forall height kind delay csv,
  confirmation_threshold height kind delay csv >= height + ANTI_REORG_DELAY - 1 /\
  (kind = OnchainEventKind_MaturingDelayedPaymentOutput ->
     confirmation_threshold height kind delay csv >= height + delay - 1) /\
  (forall c, kind = OnchainEventKind_SpendConfirmation -> csv = Some c ->
     confirmation_threshold height kind delay csv >= height + c - 1).
Proof. exact threshold_ge. Qed.

Theorem C08_forward_race_won : forall h0 out_cltv in_cltv d t,
  d >= MIN_CLTV_EXPIRY_DELTA ->
  in_cltv >= out_cltv + d ->
  h0 <= out_cltv + LATENCY_GRACE_PERIOD_BLOCKS ->
  fwd_timeline_ok out_cltv h0 t ->
  tl_H t = out_cltv + LATENCY_GRACE_PERIOD_BLOCKS /\
  tl_F t >= tl_c2 t + ANTI_REORG_DELAY - 1 /\
  tl_F t <= in_cltv - LATENCY_GRACE_PERIOD_BLOCKS /\
  tl_F t < in_cltv + LATENCY_GRACE_PERIOD_BLOCKS.
Proof. exact forward_race_won. Qed.

Theorem C08_forward_call_sites_enforce_min_delta : forall h out inn d,
  In d forward_cltv_min_delta_sites ->
  check_incoming_htlc_cltv h out inn d = ROk tt ->
  inn - out >= MIN_CLTV_EXPIRY_DELTA.
Proof. exact accepted_at_call_site_has_budget. Qed.

Theorem C08_reload_failback_after_burial : forall event_height best,
  reload_funding_spend_buried event_height best = true <->
  best >= confirmation_threshold event_height OnchainEventKind_Other 0 None.
Proof. exact reload_burial. Qed.

Theorem C08_holding_cell_timeout : forall out h,
  holding_cell_htlc_timed_out out (holding_cell_cltv_limit h) = true <->
  out <= h + LATENCY_GRACE_PERIOD_BLOCKS.
Proof. exact holding_cell_mirrors_forward_check. Qed.

Theorem C08_holding_cell_consistent_with_forward : forall h out inn d,
  check_incoming_htlc_cltv h out inn d = ROk tt ->
  holding_cell_htlc_timed_out out (holding_cell_cltv_limit h) = false.
Proof. exact holding_cell_consistent_with_forward. Qed.

Example C08_call_sites_nonempty : forward_cltv_min_delta_sites <> [].
Proof. discriminate. Qed.

(** Non-vacuity: concrete timelines satisfy the hypotheses. *)
Example C08_fwd_timeline_exists :
  fwd_timeline_ok 700 600 {| tl_H := 703; tl_c1 := 721; tl_c2 := 739; tl_F := 744 |}.
Proof.
  unfold fwd_timeline_ok, first_fires, confirms_within, confirmation_threshold, should_broadcast_htlc_timeout.
  cbn [tl_H tl_c1 tl_c2 tl_F negb andb orb].
  unfold LATENCY_GRACE_PERIOD_BLOCKS, MAX_BLOCKS_FOR_CONF, ANTI_REORG_DELAY.
  repeat split; try lia; intros; lia.
Qed.
Example C08_claim_timeline_exists :
  claim_timeline_ok 700 600 {| ct_H := 664; ct_c1 := 682; ct_c2 := 700 |}.
Proof.
  unfold claim_timeline_ok, first_fires, confirms_within, should_broadcast_htlc_timeout.
  cbn [ct_H ct_c1 ct_c2 negb andb orb].
  unfold CLTV_CLAIM_BUFFER, MAX_BLOCKS_FOR_CONF.
  repeat split; try lia; intros; lia.
Qed.

Theorem C08_hand_model_is_generated_code :
  (forall h o i d, h_check_incoming_htlc_cltv h o i d = check_incoming_htlc_cltv h o i d) /\
  (forall c h, h_check_onchain_timeout c h = check_onchain_timeout c h) /\
  (forall c h, h_final_expiry_too_soon c h = final_hop_cltv_too_soon c h) /\
  (forall o c h p, h_should_broadcast o c h p = should_broadcast_htlc_timeout o c h p) /\
  (forall h c, h_confirmation_threshold h (Some c) = confirmation_threshold h OnchainEventKind_SpendConfirmation 0 (Some c)) /\
  (forall h, h_confirmation_threshold h None = confirmation_threshold h OnchainEventKind_Other 0 None).
Proof. exact hand_eq_gen. Qed.
