(** C05 -- Revoked state is never used and state is never revoked early.
    Only theorem statements closed by [exact]; proofs are in Proofs/C05Shachain.v and
    Proofs/C05Revoke.v; models in Model/Shachain.v and Model/RevokeLog.v. *)
Require Import LdkV.Prim.U64 LdkV.Model.Shachain LdkV.Model.RevokeLog
  LdkV.Proofs.C05Shachain LdkV.Proofs.C05Revoke LdkV.Crypto.Sha256 LdkV.Gen.C05Pins.
Open Scope Z_scope.

(** ** The compact store of received revocation secrets *)

(** For EVERY hash function, seed and number [n <= 2^48] of updates: feeding the store the peer's
    correctly generated secrets for the indices 2^48-1, ..., 2^48-n in order never fails, and
    afterwards the 49-slot store answers exactly like the map {j |-> secret_j | j >= 2^48-n}:
    every revoked state stays punishable, nothing else is claimed known; the internal assertion
    of [get_secret] cannot fire. *)
Theorem C05_shachain_refines_map : forall (H : bytes -> bytes) (seed : bytes) (n : nat),
  Z.of_nat n <= 2 ^ 48 ->
  exists s, feed H seed n = Some s /\
    get_min_seen_secret s = 2 ^ 48 - Z.of_nat n /\
    forall j, 0 <= j < 2 ^ 48 ->
      get_secret H s j = (if 2 ^ 48 - Z.of_nat n <=? j then Some (build_commitment_secret H seed j) else None) /\
      get_secret_panics H s j = false.
Proof. exact shachain_refines_map. Qed.

(** [provide_secret] on ANY store: a secret is accepted only if it re-derives the stored secret
    of every lower slot, and then the only slot that may change is the secret's own. *)
Theorem C05_shachain_accepts_only_consistent : forall (H : bytes -> bytes) s idx secret s',
  provide_secret H s idx secret = Some s' ->
  (forall i : nat, Z.of_nat i < place_secret idx -> (i < List.length s)%nat ->
     derive_secret H secret (place_secret idx) (snd (nth i s dflt)) = fst (nth i s dflt)) /\
  (s' = s \/ (idx < get_min_seen_secret s /\ s' = set_nth (Z.to_nat (place_secret idx)) (secret, idx) s)).
Proof. exact provide_accepts. Qed.

Theorem C05_shachain_rejects : forall (H : bytes -> bytes) s idx secret (i : nat),
  Z.of_nat i < place_secret idx -> (i < List.length s)%nat ->
  derive_secret H secret (place_secret idx) (snd (nth i s dflt)) <> fst (nth i s dflt) ->
  provide_secret H s idx secret = None.
Proof. exact provide_rejects. Qed.

(** After ANY number of honest updates, a secret accepted for the next index collides under [H] with
    the correctly generated one (after the same one-bit flip) for every slot below the index's
    slot: forging a revocation secret for an even index needs a hash collision. (For an odd index
    there is no lower slot; the channel checks those against the announced point, see
    [C05_secret_checked].) *)
Theorem C05_shachain_forgery_needs_collision : forall (H : bytes -> bytes) seed (n : nat) s secret s' (i : nat),
  Z.of_nat n < 2 ^ 48 ->
  feed H seed n = Some s ->
  provide_secret H s (2 ^ 48 - Z.of_nat n - 1) secret = Some s' ->
  Z.of_nat i < place_secret (2 ^ 48 - Z.of_nat n - 1) ->
  H (flip_bit (Z.of_nat i) secret) =
  H (flip_bit (Z.of_nat i) (build_commitment_secret H seed (2 ^ 48 - Z.of_nat n - 1))).
Proof. exact forged_after_feed. Qed.

(** ** The revocation discipline of a node, for every operation list

    [ops] ranges over ALL lists of operations of Model/RevokeLog.v: every interleaving of local
    commits, peer messages (valid or not, honest or not), monitor-update completions,
    disconnections, channel_reestablish contents, force closes and re-signing after restart.
    The premises about [point_eqb] say it decides equality of commitment points. *)

(** every log is accepted by the executable policy [chk] (the one the check also runs on the
    signer log of the real implementation) *)
Theorem C05_policy_holds : forall secret point pub point_eqb,
  (forall p, point_eqb p p = true) -> (forall p q, point_eqb p q = true -> p = q) ->
  forall batch p0 ops, exists g,
    chk_all secret point pub point_eqb (pol_init point) (machine_log secret point pub point_eqb batch p0 ops) = Some g.
Proof. exact policy_holds. Qed.

(** a secret is released only after the successor commitment was validated FULLY SIGNED (as many
    counterparty HTLC signatures as non-dust HTLCs, all valid); neither that commitment nor a newer
    one was signed for broadcast before, and none is signed afterwards *)
Theorem C05_release_after_newer : forall secret point pub point_eqb,
  (forall p, point_eqb p p = true) -> (forall p q, point_eqb p q = true -> p = q) ->
  forall batch p0 ops pre k post,
  machine_log secret point pub point_eqb batch p0 ops = pre ++ Release k :: post ->
  (exists n, In (ValidateHolder (k - 1) n n) pre) /\
  (forall k', In (SignHolder k') pre -> k' < k) /\
  (forall k', In (SignHolder k') post -> k' < k).
Proof. exact run_release_after_newer. Qed.

(** whatever holder commitment is signed for broadcast -- by a close or by the monitor's public API
    on a channel that is still open -- was validated (or is the initial one) and was never revoked *)
Theorem C05_sign_holder_unrevoked : forall secret point pub point_eqb,
  (forall p, point_eqb p p = true) -> (forall p q, point_eqb p q = true -> p = q) ->
  forall batch p0 ops pre k post,
  machine_log secret point pub point_eqb batch p0 ops = pre ++ SignHolder k :: post ->
  (k = INITIAL \/ exists n, In (ValidateHolder k n n) pre) /\
  (forall j, In (Release j) pre -> k < j).
Proof. exact run_sign_holder_unrevoked. Qed.

(** ... and is never revoked LATER: once holder commitment [k] was signed for broadcast, on any path
    (error close, user force close, HTLC timeout, [ChannelMonitor::broadcast_latest_holder_commitment_txn]
    on a live channel with the ChannelManager handling any number of peer messages before it learns
    of it), no operation list makes the node release the secret of [k] or of anything newer *)
Theorem C05_no_release_after_holder_broadcast : forall secret point pub point_eqb,
  (forall p, point_eqb p p = true) -> (forall p q, point_eqb p q = true -> p = q) ->
  forall batch p0 ops pre k post,
  machine_log secret point pub point_eqb batch p0 ops = pre ++ SignHolder k :: post ->
  forall j, In (Release j) post -> k < j.
Proof. exact run_no_release_after_holder_broadcast. Qed.

(** a revoke_and_ack received while no commitment_signed of ours is outstanding
    ([AWAITING_REMOTE_REVOKE] not set) is refused in EVERY other state -- monitor update in progress,
    our stfu sent, disconnected, monitor locked --: the counterparty number and points do not move,
    nothing is validated, stored or announced, the channel is closed (while quiescent: warned, unchanged) *)
Theorem C05_unsolicited_revocation_rejected : forall secret point pub point_eqb (s : st secret point)
  sec np chain_ok commit sync,
  closed s = false -> awaiting_rr s = false ->
  let s' := fst (step secret point pub point_eqb s (ORecvRAA sec np chain_ok commit sync)) in
  let evs := snd (step secret point pub point_eqb s (ORecvRAA sec np chain_ok commit sync)) in
  cp_next s' = cp_next s /\ cp_cur_point s' = cp_cur_point s /\ cp_next_point s' = cp_next_point s /\
  (evs = [] \/ evs = [SignHolder (holder_next s + 1)]) /\
  (if quiescent (ext s) then s' = s else closed s' = true).
Proof. exact unsolicited_revocation_rejected. Qed.

(** when counterparty commitment [k] is signed, every number above [k+1] is already revoked with
    its secret stored: at most one earlier counterparty commitment is unrevoked *)
Theorem C05_single_outstanding : forall secret point pub point_eqb,
  (forall p, point_eqb p p = true) -> (forall p q, point_eqb p q = true -> p = q) ->
  forall batch p0 ops pre k post,
  machine_log secret point pub point_eqb batch p0 ops = pre ++ SignCounterparty k :: post ->
  forall j, k + 2 <= j <= INITIAL -> exists sec, In (StoreSecret j sec) pre.
Proof. exact run_single_outstanding. Qed.

(** every number in the log is the initial number minus the count of earlier updates in its
    direction: numbers advance by exactly one per update, in both directions *)
Theorem C05_step_by_one : forall secret point pub point_eqb,
  (forall p, point_eqb p p = true) -> (forall p q, point_eqb p q = true -> p = q) ->
  forall batch p0 ops pre e post,
  machine_log secret point pub point_eqb batch p0 ops = pre ++ e :: post ->
  match e with
  | ValidateHolder k nsig nnd => k = INITIAL - 1 - count is_vh pre /\ nsig = nnd
  | Release k => k = INITIAL + 1 - count is_vh pre
  | SignHolder k => INITIAL - count is_vh pre <= k <= INITIAL
  | ValidateRevocation k => k = INITIAL - count is_vr pre /\ count is_store pre = count is_vr pre
  | StoreSecret k _ => k = INITIAL - count is_store pre
  | SignCounterparty k => k = INITIAL - 1 - count is_store pre
  | Announce _ _ => True
  end.
Proof. exact run_step_by_one. Qed.

Theorem C05_counters : forall secret point pub point_eqb,
  (forall p, point_eqb p p = true) -> (forall p q, point_eqb p q = true -> p = q) ->
  forall batch p0 ops,
  let s := fst (run secret point pub point_eqb (init secret point batch p0) (init_log secret point p0) ops) in
  let log := machine_log secret point pub point_eqb batch p0 ops in
  holder_next s = INITIAL - 1 - count is_vh log /\
  (closed s = false -> cp_next s = INITIAL - 1 - count is_store log).
Proof. exact run_counters. Qed.

(** a received secret is stored only after its revocation was validated and only if its public
    point is the one the peer announced for exactly that commitment number *)
Theorem C05_secret_checked : forall secret point pub point_eqb,
  (forall p, point_eqb p p = true) -> (forall p q, point_eqb p q = true -> p = q) ->
  forall batch p0 ops pre k sec post,
  machine_log secret point pub point_eqb batch p0 ops = pre ++ StoreSecret k sec :: post ->
  In (Announce k (pub sec)) pre /\ In (ValidateRevocation k) pre.
Proof. exact run_secret_checked. Qed.

(** the point of a commitment number is announced at most once over the whole life of the channel
    (open/accept, channel_ready in every funding-flag state, revoke_and_ack): it is never replaced;
    together with [C05_secret_checked], every stored secret matches the point FIRST announced *)
Theorem C05_announce_once : forall secret point pub point_eqb,
  (forall p, point_eqb p p = true) -> (forall p q, point_eqb p q = true -> p = q) ->
  forall batch p0 ops pre k p post,
  machine_log secret point pub point_eqb batch p0 ops = pre ++ Announce k p :: post ->
  forall p', ~ In (Announce k p') pre.
Proof. exact run_announce_once. Qed.

(** a re-sent channel_ready, in ANY state in which the peer's channel_ready was already taken into
    account -- ChannelReady, or AwaitingChannelReady with THEIR_CHANNEL_READY and without
    OUR_CHANNEL_READY, WITH OR WITHOUT WAITING_FOR_BATCH -- never touches the stored points and
    announces nothing; it is a no-op or closes the channel *)
Theorem C05_channel_ready_points_immutable : forall secret point pub point_eqb (s : st secret point) p,
  closed s = false -> disconnected s = false ->
  (chan_ready (hsk s) = true \/ (their_ready (hsk s) = true /\ our_ready (hsk s) = false)) ->
  let s' := fst (step secret point pub point_eqb s (ORecvChannelReady p)) in
  let evs := snd (step secret point pub point_eqb s (ORecvChannelReady p)) in
  cp_cur_point s' = cp_cur_point s /\ cp_next_point s' = cp_next_point s /\ hsk s' = hsk s /\
  (forall k q, ~ In (Announce k q) evs) /\
  (closed s' = false -> s' = s /\ evs = []).
Proof. exact channel_ready_points_immutable. Qed.

(** [FundedChannel::channel_reestablish] ([reest_core]; the step then also handles a channel_ready kept
    by the lnd workaround), in ANY disconnected state: the channel resumes only if the peer's two
    numbers are ours or ours-1 (with a matching proof secret), resuming changes no number, and the
    only things done are retransmissions of the last revoke_and_ack / commitment_signed *)
Theorem C05_reestablish_adjacent_only : forall secret point (s : st secret point) nl nr sc,
  closed s = false -> disconnected s = true -> chan_ready (hsk s) = true ->
  let s' := fst (reest_core secret point s nl nr sc) in
  let evs := snd (reest_core secret point s nl nr sc) in
  let our := INITIAL - (holder_next s + 1) in
  let ncp := INITIAL - cp_next s + (if awaiting_rr s then 1 else 0) in
  closed s' = false -> disconnected s' = false ->
  (nr = our \/ nr + 1 = our) /\ (nl = ncp \/ nl = ncp - 1) /\
  (nr = 0 \/ sc = SecMatch) /\
  holder_next s' = holder_next s /\ cp_next s' = cp_next s /\ awaiting_rr s' = awaiting_rr s /\
  (forall e, In e evs -> (e = Release (holder_next s + 2) /\ nr + 1 = our) \/
                         (e = SignCounterparty (cp_next s) /\ nl = ncp - 1)).
Proof. exact reest_resumes_only_adjacent. Qed.

(** the source comparisons the machine transliterates, re-read from channel.rs / channelmonitor.rs on
    every run: [ORecvCS]'s signature-count test, [recv_channel_ready]'s re-sent-message test, the
    "unexpected revoke_and_ack" guard (AWAITING_REMOTE_REVOKE and nothing else), the conjuncts of
    [can_generate_new_commitment], the place where the monitor sets [holder_tx_signed] (inside the
    claim generation every broadcast path goes through) and what [no_further_updates_allowed] tests *)
Theorem C05_source_pins :
  htlc_sig_count_test = "msg.htlc_signatures.len() != commitment_data.tx.nondust_htlcs().len()"%string /\
  channel_ready_resend_test =
    "flags.clone().clear(AwaitingChannelReadyFlags::WAITING_FOR_BATCH) == AwaitingChannelReadyFlags::THEIR_CHANNEL_READY"%string /\
  raa_unexpected_test = "!self.context.channel_state.is_awaiting_remote_revoke()"%string /\
  can_generate_new_commitment_test =
    "!flags.is_set(ChannelReadyFlags::AWAITING_REMOTE_REVOKE) && !flags.is_set(ChannelReadyFlags::LOCAL_STFU_SENT) && !flags.is_set(ChannelReadyFlags::QUIESCENT) && !flags.is_set(FundedStateFlags::MONITOR_UPDATE_IN_PROGRESS.into()) && !flags.is_set(FundedStateFlags::PEER_DISCONNECTED.into())"%string /\
  monitor_lock_in_claim_generation = "self.holder_tx_signed = true;"%string /\
  monitor_no_further_updates_test =
    "self.funding_spend_seen || self.lockdown_from_offchain || self.holder_tx_signed"%string.
Proof. exact source_pins. Qed.

(** ** A statement that does NOT hold (known finding C05-F1; see design/C05.md)

    "The node signs a counterparty commitment only if it records it as outstanding" is refuted by a
    concrete reachable state and channel_reestablish: not awaiting a revoke_and_ack, the peer claims
    next_local_commitment_number = number of the last commitment_signed it was sent; the node signs
    the next, never-sent number [cp_next] and still does not consider itself awaiting a revocation.
    The same input was replayed on the unmodified implementation (h_reest_probe): it signs that
    commitment and issues no ChannelMonitorUpdate for it. *)
Theorem C05_unrecorded_counterparty_commitment_refuted :
  exists (ops : list (op Z Z)) (nl nr : Z),
    let '(s, log) := run Z Z (fun x => x) Z.eqb (init Z Z false 100) (init_log Z Z 100) ops in
    let '(s', evs) := step Z Z (fun x => x) Z.eqb s (ORecvReest nl nr SecMatch) in
    closed s = false /\ awaiting_rr s = false /\ disconnected s = true /\
    ~ In (SignCounterparty (cp_next s)) log /\
    evs = [SignCounterparty (cp_next s)] /\
    closed s' = false /\ awaiting_rr s' = false /\ disconnected s' = false /\ cp_next s' = cp_next s.
Proof. exact unrecorded_counterparty_commitment_witness. Qed.

(** ** A second statement that does NOT hold (known finding C05-F2; see design/C05.md)

    "A revocation of counterparty commitment k is accepted only after k-1 was signed, and the signed
    numbers have no gap" is refuted: the node builds commitment INITIAL-1 (its ChannelMonitorUpdate in
    flight, nothing signed yet), the peer revokes INITIAL early, the node accepts (it IS awaiting a
    revocation), and when the update completes it signs INITIAL-2. The same sequence was replayed on
    the unmodified implementation (h_early_raa_probe): the monitor was handed ...652, the signer is
    asked for ...651 (TestChannelSigner's own policy assertion fires: "doesn't come after"). *)
Theorem C05_revocation_before_signature_refuted :
  exists (ops : list (op Z Z)),
    let '(s, log) := run Z Z (fun x => x) Z.eqb (init Z Z false 100) (init_log Z Z 100) ops in
    closed s = false /\ awaiting_rr s = false /\ mon_in_progress s = false /\
    In (StoreSecret INITIAL 100) log /\
    ~ In (SignCounterparty (INITIAL - 1)) log /\
    In (SignCounterparty (INITIAL - 2)) log.
Proof. exact early_revocation_witness. Qed.

(** ** Non-vacuity *)

(** BOLT 3 appendix D vectors through the Gallina SHA-256: the model computes real secrets. *)
Example C05_bolt3_generate_from_seed_0_final :
  build_commitment_secret sha256 (repeat 0 32) 281474976710655 =
  [2; 164; 12; 133; 182; 242; 141; 160; 141; 253; 190; 9; 38; 197; 63; 171; 45; 230; 210; 140; 16;
   48; 31; 143; 124; 64; 115; 213; 228; 46; 49; 72].
Proof. vm_compute. reflexivity. Qed.

Example C05_bolt3_generate_from_seed_FF_alternate_bits_1 :
  build_commitment_secret sha256 (repeat 255 32) 0xaaaaaaaaaaa =
  [86; 244; 0; 143; 176; 7; 202; 154; 207; 14; 21; 176; 84; 213; 201; 253; 18; 238; 6; 206; 163;
   71; 145; 77; 219; 174; 215; 13; 28; 19; 165; 40].
Proof. vm_compute. reflexivity. Qed.

(** a wrong secret at an even index is refused by a store that was fed honestly *)
Example C05_shachain_refuses_wrong_secret :
  match feed sha256 (repeat 1 32) 3 with
  | Some s => provide_secret sha256 s (2 ^ 48 - 4) (repeat 7 32)
  | None => None
  end = None.
Proof. vm_compute. reflexivity. Qed.

(** runs from the batch-funded AwaitingChannelReady state: an early channel_ready followed by a forged
    different one (channel closed); and a full life: handshake, two update rounds each way, an
    asynchronous monitor completion, a disconnection with retransmission of both messages, a
    commitment_signed lacking an HTLC signature (closing the channel), a re-sign. Secrets and points
    are integers, [pub] the identity. *)
Example C05_run_nontrivial :
  machine_log Z Z (fun x => x) Z.eqb true 100
    [ORecvChannelReady 101;        (* early channel_ready of a 0-conf peer while WAITING_FOR_BATCH *)
     ORecvChannelReady 555;        (* a re-sent one with a different point would close: shown separately *)
     OResign] =
  (* the forged channel_ready closes the channel; the batch funding was never broadcast, so nothing is
     signed at that point; [OResign] models a later explicit signing of the only commitment *)
  [Announce INITIAL 100; Announce (INITIAL - 1) 101; SignHolder INITIAL].
Proof. vm_compute. reflexivity. Qed.

Example C05_run_nontrivial_2 :
  machine_log Z Z (fun x => x) Z.eqb true 100
    [ORecvChannelReady 101; ORecvChannelReady 101; OBatchReady; OOurChannelReady;
     OCommit true; ORecvRAA 100 102 true false true; ORecvCS true 2 2 true true true;
     ORecvRAA 101 103 true false false; OMonitorDone;
     ORecvCS true 0 0 true true false; ODisconnect; OMonitorDone;
     ORecvReest 3 1 SecMatch;
     ORecvCS true 1 2 true false true;   (* one HTLC signature missing: refused, channel closed *)
     OResign] =
  [Announce INITIAL 100; Announce (INITIAL - 1) 101;
   SignCounterparty (INITIAL - 1);
   ValidateRevocation INITIAL; StoreSecret INITIAL 100; Announce (INITIAL - 2) 102;
   ValidateHolder (INITIAL - 1) 2 2; Release INITIAL; SignCounterparty (INITIAL - 2);
   ValidateRevocation (INITIAL - 1); StoreSecret (INITIAL - 1) 101; Announce (INITIAL - 3) 103;
   ValidateHolder (INITIAL - 2) 0 0;
   Release (INITIAL - 1); SignCounterparty (INITIAL - 3);
   SignHolder (INITIAL - 2); SignHolder (INITIAL - 2)].
Proof. vm_compute. reflexivity. Qed.

(** the user broadcasts through the monitor while the channel is open; the peer's commitment_signed is
    handled before the ChannelManager learns of it: the new commitment is validated, but its monitor
    update never completes (not even when the persister says so), so the revoke_and_ack revoking the
    broadcast commitment is never produced; the ChannelManager then closes without another broadcast,
    and a later re-broadcast signs the same commitment again *)
Example C05_run_monitor_broadcast_on_live_channel :
  machine_log Z Z (fun x => x) Z.eqb false 100
    [OOurChannelReady; ORecvChannelReady 101;
     ORecvCS true 0 0 true false true;     (* an ordinary round first *)
     OMonBroadcast;
     ORecvCS true 1 1 true false true; OMonitorDone;
     ORecvRAA 100 102 true false true;     (* not awaiting: closes; the claim exists, nothing is signed *)
     OProcessEvents; OResign] =
  [Announce INITIAL 100; Announce (INITIAL - 1) 101;
   ValidateHolder (INITIAL - 1) 0 0; Release INITIAL;
   SignHolder (INITIAL - 1);
   ValidateHolder (INITIAL - 2) 1 1;
   SignHolder (INITIAL - 1)].
Proof. vm_compute. reflexivity. Qed.
