(** C11 -- On-chain conclusions depend only on the chain, not on how it was delivered.
    Only statements closed by [exact]; proofs are in Proofs/C11.v; the model (Model/ChainView.v) is a hand
    transliteration of the monitor's chain bookkeeping, trace-validated against real monitors by the
    check (h_chainview). See design/C11.md. *)
Require Import LdkV.Prim.U64 LdkV.Gen.Consts LdkV.Gen.CltvChecks LdkV.Model.ChainView LdkV.Proofs.C11.
Open Scope Z_scope.

(** the model's [height + delta - 1] is the rs2v-generated [confirmation_threshold], with
    [delta >= ANTI_REORG_DELAY] *)
Theorem C11_threshold_abstraction : forall h kind tsd csv,
  confirmation_threshold h kind tsd csv = h + delta_of kind tsd csv - 1 /\
  ANTI_REORG_DELAY <= delta_of kind tsd csv.
Proof. exact threshold_is_delta. Qed.

(** For ANY operation list -- admissible or not, forks and reorganisations included -- every
    irreversible conclusion about a transaction confirmed at [c] is drawn at a best height of at least
    [c + ANTI_REORG_DELAY - 1]. *)
Theorem C11_buried_first : forall ops st,
  Forall op_ok ops -> entries_ok (awaiting st) -> emitted_buried st -> emitted_buried (run st ops).
Proof. exact buried_first. Qed.

(** Re-delivering [transactions_confirmed] or [best_block_updated] changes nothing, in any state. *)
Theorem C11_idempotent : forall st o,
  match o with TC _ _ | BB _ => step (step st o) o = step st o | _ => True end.
Proof. exact step_idempotent. Qed.

(** A fork of fewer than ANTI_REORG_DELAY blocks that is connected and disconnected again leaves exactly
    the state the same blocks WITHOUT their transactions would have left. *)
Theorem C11_shallow_reorg_retracts : forall st blocks fp,
  Forall (fun e => e_height e <= best_h st) (awaiting st) ->
  fork_seg (best_h st) blocks -> Z.of_nat (List.length blocks) < ANTI_REORG_DELAY ->
  b_height fp = best_h st ->
  step (run st (map BC blocks)) (BD fp) = step (run st (map BC (map empty_blk blocks))) (BD fp).
Proof. exact shallow_reorg_retracts. Qed.

(** ... and [best_block_updated] back to the fork point is that same retraction. *)
Theorem C11_best_block_reorg_is_disconnect : forall s fp,
  b_height fp <= best_h s -> b_hash fp <> best_hash s -> step s (BB fp) = step s (BD fp).
Proof. exact bb_reorg_is_bd. Qed.

(** Two deliveries of the same chain -- whole blocks or filtered transactions, transactions first or
    best block first, split, duplicated, late, skipping intermediate best-block updates -- that both
    hand over every transaction and end at the same best height give the same view. *)
Theorem C11_delivery_independent : forall chain h0 hash0 ops1 ops2,
  uniq_ids chain ->
  linear chain (fresh h0 hash0) ops1 -> linear chain (fresh h0 hash0) ops2 ->
  delivers_all chain ops1 -> delivers_all chain ops2 ->
  best_h (run (fresh h0 hash0) ops1) = best_h (run (fresh h0 hash0) ops2) ->
  view_eq (run (fresh h0 hash0) ops1) (run (fresh h0 hash0) ops2).
Proof. exact delivery_independent. Qed.

(** * Monitor updates that arrive after the closing transaction confirmed ([AU]) *)

(** A late update never makes a transaction appear at another height or in another block: the entry it
    queues is stamped with the spend's own txid, height and block (not with the tip). *)
Theorem C11_late_update_stamped_with_spend : forall st dep tag x,
  In x (relevant_txids (step st (AU dep tag))) -> In x (relevant_txids st).
Proof. exact au_stamped_with_spend. Qed.

(** For ANY operation list, late updates included, all awaiting entries of one transaction sit at one
    height in one block; since [blocks_disconnected], the reorg branch of [best_block_updated] and
    [transaction_unconfirmed] filter on the height alone, an entry created by a late update is retracted
    exactly when the transaction it depends on is. *)
Theorem C11_entries_coherent : forall ops st, coherent (awaiting st) -> coherent (awaiting (run st ops)).
Proof. exact run_coherent. Qed.

(** The shallow-fork theorem with late updates (about transactions of the common chain) applied at any
    points while the fork is connected. *)
Theorem C11_shallow_reorg_retracts_with_updates : forall st fs fp,
  Forall (fun e => e_height e <= best_h st) (awaiting st) ->
  fork_ops_ok (best_h st) (best_h st) st fs -> count_blocks fs < ANTI_REORG_DELAY ->
  b_height fp = best_h st ->
  step (run st (map fop_full fs)) (BD fp) = step (run st (map fop_empty fs)) (BD fp).
Proof. exact shallow_reorg_retracts_with_updates. Qed.

(** The boundary of a disconnection. [blocks_disconnected] names the fork point, the last block KEPT:
    exactly the awaiting entries at or below its height survive, everything concluded stays. *)
Theorem C11_disconnect_boundary : forall st f,
  (forall e, In e (awaiting (step st (BD f))) <-> In e (awaiting st) /\ e_height e <= b_height f) /\
  done_txids (step st (BD f)) = done_txids st /\ emitted (step st (BD f)) = emitted st /\
  best_h (step st (BD f)) = b_height f.
Proof. exact disconnect_boundary. Qed.

(** The same boundary for the confirmed, not yet locked alternative funding (splice), which the monitor
    keeps next to the list and retracts by a comparison of its own. *)
Theorem C11_disconnect_boundary_alt : forall pending x f t h,
  alt x = Some (t, h) ->
  (h <= b_height f -> alt (xstep pending x (BD f)) = Some (t, h)) /\
  (b_height f < h -> alt (xstep pending x (BD f)) = None).
Proof. exact disconnect_boundary_alt. Qed.

(** A fork on top of [f], whatever it confirms (a splice included), then the disconnection back to [f]:
    the alternative funding is what it was, if it was recorded at or below [f] or not at all. *)
Theorem C11_fork_leaves_alternative_funding : forall pending x fork f,
  (match alt x with Some (_, h) => h <= b_height f | None => True end) ->
  Forall (fun b => b_height f < b_height b) fork ->
  alt (xstep pending (xrun pending x (map BC fork)) (BD f)) = alt x.
Proof. exact fork_leaves_alt. Qed.

(** Restart as an operation: the view is invariant under it, wherever it happens. *)
Theorem C11_reload_invariant : forall st a b,
  step st RL = st /\ run st (a ++ RL :: b) = run st (a ++ b) /\
  forall pending x, xrun pending x (a ++ RL :: b) = xrun pending x (a ++ b).
Proof. exact reload_all. Qed.

(** The block filter keeps a child of a transaction kept earlier in the block through ANY input ... *)
Theorem C11_block_filter_any_input : forall w m t r i,
  In i (f_ins t) -> In (fst i) m -> filter_block w m (t :: r) = t :: filter_block w (f_id t :: m) r.
Proof. exact filter_child_any_input. Qed.

(** ... so whole-block delivery looks at every transaction that per-transaction delivery looks at. *)
Theorem C11_whole_block_finds_what_per_tx_finds : forall w txs t,
  In t (per_tx w txs) -> In t (filter_block w [] txs).
Proof. exact whole_block_finds_what_per_tx_finds. Qed.

(** Non-vacuity: a commitment (CSV 144 on its delayed output) at height 101, an HTLC claim at 103, then
    empty blocks; delivered as whole blocks, and transactions-first with the best block updated only
    every third block plus a duplicate. *)
Definition ex_t1 := mkTx 11 [(1, 6); (2, 144)].
Definition ex_t2 := mkTx 12 [(3, 6); (4, 6)].
Definition ex_blk (h : Z) : blk := mkBlk (1000 + h) h (if h =? 101 then [ex_t1] else if h =? 103 then [ex_t2] else []).
Definition ex_chain := map ex_blk [101; 102; 103; 104; 105; 106; 107; 108; 109].
Definition ex_ops1 := map BC ex_chain.
Definition ex_ops2 :=
  [BB (ex_blk 101); TC (ex_blk 101) [ex_t1]; TC (ex_blk 101) [ex_t1]; TC (ex_blk 103) [ex_t2]; BB (ex_blk 106);
   TC (ex_blk 103) [ex_t2]; BB (ex_blk 109)].
Example C11_deliveries_example :
  linear ex_chain (fresh 100 1100) ex_ops1 /\ linear ex_chain (fresh 100 1100) ex_ops2 /\
  awaiting (run (fresh 100 1100) ex_ops1) = awaiting (run (fresh 100 1100) ex_ops2) /\
  map (fun m => (m_txid m, m_tag m, m_conf m)) (emitted (run (fresh 100 1100) ex_ops2)) = [(11, 1, 101); (12, 3, 103); (12, 4, 103)] /\
  map m_at (emitted (run (fresh 100 1100) ex_ops1)) = [106; 108; 108] /\ map m_at (emitted (run (fresh 100 1100) ex_ops2)) = [106; 109; 109] /\
  map (fun m => (m_txid m, m_tag m, m_conf m)) (emitted (run (fresh 100 1100) ex_ops1)) = [(11, 1, 101); (12, 3, 103); (12, 4, 103)] /\
  relevant_txids (run (fresh 100 1100) ex_ops1) = [(11, 101, 1101)].
Proof.
  split; [|split].
  - cbn. repeat split; try (vm_compute; intuition discriminate); try tauto; intros t [<- | []]; vm_compute; tauto.
  - cbn. repeat split; try (vm_compute; intuition discriminate); try tauto; intros t [<- | []]; vm_compute; tauto.
  - vm_compute. repeat split.
Qed.
Example C11_fork_example :
  let st := run (fresh 100 1100) (map BC (map ex_blk [101; 102])) in
  let fork := [mkBlk 2103 103 [mkTx 99 [(7, 6)]]; mkBlk 2104 104 []] in
  fork_seg (best_h st) fork /\
  step (run st (map BC fork)) (BD (ex_blk 102)) = step (run st (map BC (map empty_blk fork))) (BD (ex_blk 102)) /\
  awaiting (step (run st (map BC fork)) (BD (ex_blk 102))) = awaiting st.
Proof. vm_compute. repeat split; repeat constructor; intuition discriminate. Qed.

(** a late update at depth 3 of the closing transaction 11, then a two-block reorganisation that does
    not reach block 101: the queued consequence (tag 9) survives and is concluded at 106, like the
    commitment's own event; had it been stamped with the tip (103) the [BD] would have erased it *)
Example C11_late_update_example :
  let st := run (fresh 100 1100) (map BC (map ex_blk [101; 102; 103]) ++ [AU 11 9]) in
  relevant_txids st = [(11, 101, 1101); (11, 101, 1101); (12, 103, 1103); (12, 103, 1103); (11, 101, 1101)] /\
  relevant_txids (step st (BD (ex_blk 101))) = [(11, 101, 1101); (11, 101, 1101); (11, 101, 1101)] /\
  map (fun m => (m_txid m, m_tag m, m_conf m, m_at m))
      (emitted (run (step st (BD (ex_blk 101))) (map BC (map empty_blk (map ex_blk [102; 103; 104; 105; 106])))))
    = [(11, 1, 101, 106); (11, 9, 101, 106)].
Proof. vm_compute. repeat split. Qed.

(** a commitment (id 1, spending watched 9:0) and, in the same block, a batched claim of its output 2
    whose parent-spending input is the LAST of three: kept as a whole block and per transaction alike *)
Example C11_filter_example :
  let parent := mkF 1 [(9, 0)] [2] in
  let child := mkF 2 [(66, 3); (65, 3); (1, 2)] [] in
  let other := mkF 3 [(77, 0)] [] in
  filter_block [(9, 0)] [] [parent; other; child] = [parent; child] /\
  per_tx [(9, 0)] [parent; other; child] = [parent; child] /\
  filter_positions [(9, 0)] [] 0 [parent; other; child] = [0; 2].
Proof. vm_compute. repeat split. Qed.

(** the boundary, concretely: a splice (id 50, pending) confirmed at 101, two more blocks, then a
    disconnection back to 101 (it stays) and one back to 100 (it goes) *)
Example C11_boundary_example :
  let x0 := mkX (fresh 100 1100) None in
  let x := xrun [50] x0 (map BC [mkBlk 1101 101 [mkTx 50 []]; mkBlk 1102 102 []; mkBlk 1103 103 []]) in
  alt x = Some (50, 101) /\
  alt (xstep [50] x (BD (mkBlk 1101 101 []))) = Some (50, 101) /\
  alt (xstep [50] x (BD (mkBlk 1100 100 []))) = None /\
  alt (xstep [50] x (TU 50)) = None.
Proof. vm_compute. repeat split. Qed.

(** the behaviour recorded as finding C11-F2, in the model: nothing lists the splice for a [Confirm]
    client once the channel is closed, and the reorg branch of [best_block_updated] does not forget it *)
Example C11_F2_example :
  let x0 := mkX (fresh 100 1100) None in
  let x := xrun [50] x0 [BC (mkBlk 1101 101 [mkTx 50 []]); BB (mkBlk 1100 100 [])] in
  best_h (core x) = 100 /\ alt x = Some (50, 101).
Proof. vm_compute. repeat split. Qed.
