(** C14 - Onions deliver exactly each hop's instructions; failures name the right hop.
    Only statements closed by [exact]; proofs are in Proofs/C14.v (forward path), Proofs/C14Fail.v
    (failures), Proofs/C14Inst.v (the executable ChaCha20 / HMAC-SHA256 instance), Proofs/C14Hold.v
    (attribution data).  The cryptographic primitives are universally quantified function variables;
    what is assumed about them is written out in each statement. *)
From Coq Require Import ZArith List Bool Lia.
Require Import LdkV.Crypto.Bytes LdkV.Crypto.Hmac LdkV.Crypto.ChaCha20.
Require Import LdkV.Model.Sphinx LdkV.Model.OnionFail LdkV.Model.SphinxInst LdkV.Model.OnionPayload.
Require Import LdkV.Gen.C14Guards.
Require Import LdkV.Proofs.C14 LdkV.Proofs.C14Fail LdkV.Proofs.C14Hold LdkV.Proofs.C14Inst LdkV.Proofs.C14Payload LdkV.Proofs.C14Gen.
Import ListNotations.
Open Scope nat_scope.

(** Delivery, for every packet size, stream cipher, MAC and self-delimiting payload codec. *)
Theorem C14_peel_build :
  forall (payload : Type) (enc : payload -> bytes) (parse : bytes -> option (payload * bytes))
         (ks : bytes -> nat -> bytes) (hmac : bytes -> bytes -> bytes) (payload_ok : payload -> Prop),
  (forall k n, List.length (ks k n) = n) ->
  (forall k m n, m <= n -> firstn m (ks k n) = ks k m) ->
  (forall k m, List.length (hmac k m) = 32) ->
  (forall p r, payload_ok p -> parse (enc p ++ r) = Some (p, r)) ->
  forall (noise : bytes) (hs : list (hopkeys * payload)) (ad : bytes),
  hs <> [] ->
  Forall payload_ok (map snd hs) ->
  total_len payload enc hs <= List.length noise ->
  exists P0 : packet,
    build payload enc ks hmac noise hs ad = Some P0 /\
    List.length (p_data P0) = List.length noise /\
    List.length (p_hmac P0) = 32 /\
    (layers_nonzero payload enc ks hmac noise hs ad ->
     delivers payload parse ks hmac (List.length noise) (map fst hs) ad P0 (map snd hs) /\
     peel_route payload parse ks hmac (map fst hs) ad P0 = (map snd hs, None, true)).
Proof. exact peel_build. Qed.

(** Construction fails exactly for the empty route and for routes that do not fit. *)
Theorem C14_build_fails_iff :
  forall (payload : Type) (enc : payload -> bytes) (ks : bytes -> nat -> bytes) (hmac : bytes -> bytes -> bytes),
  (forall k n, List.length (ks k n) = n) ->
  (forall k m, List.length (hmac k m) = 32) ->
  forall (noise : bytes) (hs : list (hopkeys * payload)) (ad : bytes),
  build payload enc ks hmac noise hs ad = None <-> hs = [] \/ List.length noise < total_len payload enc hs.
Proof. exact build_none_iff. Qed.

(** A packet that is not rejected with the HMAC error carries [hmac mu (hop_data ++ payment_hash)]. *)
Theorem C14_hmac_binds :
  forall (payload : Type) (parse : bytes -> option (payload * bytes)) (ks : bytes -> nat -> bytes)
         (hmac : bytes -> bytes -> bytes) (k : hopkeys) (ad : bytes) (P : packet),
  peel payload parse ks hmac k ad P <> PeelErr HmacCheckFailed ->
  p_hmac P = hmac (hk_mu k) (p_data P ++ ad).
Proof. exact hmac_binds. Qed.

(** Any change of the packet bytes and/or the payment hash that leaves the HMAC field alone, and
    any change of the HMAC field alone, is rejected - or exhibits a collision of [hmac] under the
    hop's key. *)
Theorem C14_tamper_rejected :
  forall (payload : Type) (parse : bytes -> option (payload * bytes)) (ks : bytes -> nat -> bytes)
         (hmac : bytes -> bytes -> bytes) (k : hopkeys) (ad ad' : bytes) (P P' : packet),
  peel payload parse ks hmac k ad P <> PeelErr HmacCheckFailed ->
  List.length (p_data P') = List.length (p_data P) ->
  p_hmac P' = p_hmac P \/ (p_data P' = p_data P /\ ad' = ad) ->
  (P', ad') <> (P, ad) ->
  peel payload parse ks hmac k ad' P' = PeelErr HmacCheckFailed \/
  hmac_collision hmac (hk_mu k) (p_data P ++ ad) (p_data P' ++ ad').
Proof. exact tamper_rejected. Qed.

(** A failure built at hop [length before] and re-wrapped by the hops before it is attributed by
    the sender to that hop, with its code and data. *)
Theorem C14_failure_attributed :
  forall (ks : bytes -> nat -> bytes) (hmac : bytes -> bytes -> bytes),
  (forall k n, List.length (ks k n) = n) ->
  (forall k m, List.length (hmac k m) = 32) ->
  forall (before : list (fkeys * Z)) (ki : fkeys) (after : list fkeys) (code : Z) (d : bytes) (hold_i : Z),
  (0 <= code < 65536)%Z ->
  (2 + Z.of_nat (List.length d) < 65535)%Z ->
  no_spurious_match ks hmac (map fst before)
    (crypt_data ks ki (failure_plain hmac ki code d DEFAULT_MIN_FAILURE_PACKET_LEN)) ->
  fst (process_onion_failure ks hmac (map fst before ++ ki :: after)
         (failure_at_sender ks hmac before ki code d hold_i))
  = Attributed (List.length before) code d.
Proof. exact failure_attributed. Qed.

(** Whatever arrives: the sender names hop [j] only if the packet, with the layers of hops [0..j]
    removed, carries a valid HMAC under hop [j]'s key, and reports the code and data found there. *)
Theorem C14_attribution_sound :
  forall (ks : bytes -> nat -> bytes) (hmac : bytes -> bytes -> bytes)
         (keys : list fkeys) (p : err_packet) (j : nat) (c : Z) (m : bytes),
  fst (process_onion_failure ks hmac keys p) = Attributed j c m ->
  exists k : fkeys,
    nth_error keys j = Some k /\
    (let x := peeled_to ks keys j (e_data p) in
     hmac (fk_um k) (skipn 32 x) = firstn 32 x /\
     (exists c1 c0 : Z, read_err_packet x = Some (c1 :: c0 :: m) /\ c = of_be16 [c1; c0])).
Proof. exact attribution_sound. Qed.

(** Hold times, fulfilled payment: every hop (last one first) adds its hold time to the attribution
    data; the sender reads the hold times of the first [MAX_HOPS] hops in path order.  Unconditional
    (any stream cipher with [List.length (ks k n) = n], any MAC with 32-byte tags). *)
Theorem C14_hold_times_fulfill :
  forall (ks : bytes -> nat -> bytes) (hmac : bytes -> bytes -> bytes),
  (forall k n, List.length (ks k n) = n) ->
  (forall k m, List.length (hmac k m) = 32) ->
  forall hops : list (fkeys * Z),
  hops <> [] ->
  Forall (fun kh => (0 <= snd kh < 2 ^ 32)%Z) hops ->
  exists E : attribution,
    fulfill_at_sender ks hmac hops = Some E /\
    decode_fulfill ks hmac (map fst hops) E = firstn MAX_HOPS (map snd hops).
Proof. exact hold_times_fulfill. Qed.

(** Hold times, failed payment: the sender reads the hold times of the hops up to the failing one
    (the first [MAX_HOPS] of them), under the side condition of attribution itself; the bound on the
    data is exact: 64529 data bytes make an [update_fail_htlc] of [LN_MAX_MSG_LEN] bytes. *)
Theorem C14_hold_times_failure :
  forall (ks : bytes -> nat -> bytes) (hmac : bytes -> bytes -> bytes),
  (forall k n, List.length (ks k n) = n) ->
  (forall k m, List.length (hmac k m) = 32) ->
  forall (before : list (fkeys * Z)) (ki : fkeys) (after : list fkeys) (code : Z) (d : bytes) (hi : Z),
  (0 <= code < 65536)%Z ->
  (Z.of_nat (List.length d) <= 64529)%Z ->
  (0 <= hi < 2 ^ 32)%Z ->
  Forall (fun kh => (0 <= snd kh < 2 ^ 32)%Z) before ->
  no_spurious_match ks hmac (map fst before)
    (crypt_data ks ki (failure_plain hmac ki code d DEFAULT_MIN_FAILURE_PACKET_LEN)) ->
  snd (process_onion_failure ks hmac (map fst before ++ ki :: after)
         (failure_at_sender ks hmac before ki code d hi))
  = firstn MAX_HOPS (map snd before ++ [hi]).
Proof. exact hold_times_failure. Qed.

(** Message-size boundary: a relaying hop keeps attribution data exactly when the failure's data has
    at most 64567 bytes ([update_fail_htlc] of at most 65535 bytes), with or without incoming
    attribution data. *)
Theorem C14_relay_attribution_boundary :
  forall (ks : bytes -> nat -> bytes) (hmac : bytes -> bytes -> bytes),
  (forall k m, List.length (hmac k m) = 32) ->
  forall (k : fkeys) (t : Z) (P : err_packet),
  (e_attr P = None \/ exists e, e_attr P = Some e /\ ok_len e) ->
  ((exists a, e_attr (wrap_failure ks hmac k t P) = Some a) <-> fits_wire (List.length (e_data P))).
Proof. exact relay_attribution_boundary. Qed.

(** Payload assembly: whatever the recipient fields (payment secret, metadata, keysend preimage,
    invoice request, blinding point) and for every custom TLV set [RecipientCustomTlvs::new] admits,
    the TLV stream of the payload is strictly ascending in its types. *)
Theorem C14_payload_tlvs_ascending :
  forall p : onion_payload,
  custom_ok (customs_of p) -> strictly_ascending (map fst (payload_tlvs p)) = true.
Proof. exact payload_ascending. Qed.

(** Instructions: [build_onion_payloads] tells hop [i] to forward over hop [i+1]'s channel exactly the
    amount and expiry of the HTLC entering hop [i+1]; the recipient is told the final value and
    [height + final delta], or - behind a blinded tail - the tail's final value and
    [height + excess_final_cltv_expiry_delta] ([spec], Proofs/C14Payload.v); the first HTLC carries
    the totals. *)
Theorem C14_build_payloads_spec :
  forall (hops : list route_hop) (tail : option blinded_tail) (rf : recipient_fields) (height : Z)
         (keysend invreq : option bytes),
  hops <> [] -> Forall hop_ok hops -> (0 <= height)%Z -> (0 <= tail_value tail)%Z ->
  (0 < rh_fee_msat (last hops (mk_route_hop 0 0 0)) + tail_value tail)%Z ->
  (V tail hops < MAX_VALUE_MSAT_LIMIT)%Z -> (C height hops < CLTV_LIMIT)%Z ->
  build_payloads hops tail rf height keysend invreq =
  Some (spec tail rf height keysend invreq hops, V tail hops, C height hops).
Proof. exact build_payloads_spec. Qed.

(** Hold times of a claimed payment including PHANTOM receives: [claim_payment_internal]'s attribution
    data (phantom layer innermost) processed by the hops before the receiving node is read by the
    sender as their hold times followed by the zero hold times of the receiving node and its phantom hop. *)
Theorem C14_hold_times_claim :
  forall (ks : bytes -> nat -> bytes) (hmac : bytes -> bytes -> bytes),
  (forall k n, List.length (ks k n) = n) ->
  (forall k m, List.length (hmac k m) = 32) ->
  forall (before : list (fkeys * Z)) (incoming : fkeys) (phantom : option fkeys),
  Forall (fun kh => (0 <= snd kh < 2 ^ 32)%Z) before ->
  exists E,
    fold_right (fun kh a => Some (process_fulfill ks hmac a (fst kh) (snd kh)))
               (Some (claim_attribution ks hmac incoming phantom)) before = Some E /\
    decode_fulfill ks hmac (map fst before ++ map fst (phantom_hops incoming phantom)) E =
    firstn MAX_HOPS (map snd before ++ map snd (phantom_hops incoming phantom)).
Proof. exact hold_times_claim. Qed.

(** The failure of a payment received through a phantom hop is the phantom hop's failure re-wrapped by
    the real node (so [C14_failure_attributed] / [C14_hold_times_failure] cover it with one more hop). *)
Theorem C14_phantom_failure_chain :
  forall (ks : bytes -> nat -> bytes) (hmac : bytes -> bytes -> bytes)
         (incoming : fkeys) (phantom : option fkeys) (code : Z) (d : bytes),
  local_failure ks hmac incoming phantom code d =
  match phantom with
  | Some ph => failure_at_sender ks hmac [(incoming, 0%Z)] ph code d 0%Z
  | None => failure_at_sender ks hmac [] incoming code d 0%Z
  end.
Proof. exact local_failure_chain. Qed.

(** The expressions rs2v regenerates from [onion_utils.rs] on every run are the ones the model uses. *)
Theorem C14_gen_relay_guard :
  forall p : err_packet,
  keeps_attribution p = negb (g_relay_drops_attribution (Z.of_nat (update_fail_htlc_wire_len p))).
Proof. exact gen_relay_guard. Qed.

Theorem C14_gen_relay_guard_spec :
  forall wire_len : Z, g_relay_drops_attribution wire_len = (65535 <? wire_len)%Z.
Proof. exact gen_relay_guard_spec. Qed.

Theorem C14_gen_constants :
  G_LN_MAX_MSG_LEN = LN_MAX_MSG_LEN /\
  G_MAX_HOPS = Z.of_nat MAX_HOPS /\ G_HOLD_TIME_LEN = Z.of_nat HOLD_TIME_LEN /\
  G_HMAC_LEN = Z.of_nat HMAC_LEN /\ G_HMAC_COUNT = Z.of_nat HMAC_COUNT /\
  G_DEFAULT_MIN_FAILURE_PACKET_LEN = Z.of_nat DEFAULT_MIN_FAILURE_PACKET_LEN /\
  G_ONION_DATA_LEN = 1300%Z.
Proof. exact gen_constants. Qed.

Theorem C14_gen_positions :
  forall cnt idx : nat, idx < cnt ->
  Z.of_nat (cnt - idx - 1) = g_failure_position (Z.of_nat cnt) (Z.of_nat idx) /\
  Z.of_nat (cnt - idx - 1) = g_fulfill_position (Z.of_nat cnt) (Z.of_nat idx) /\
  g_failure_position_safe (Z.of_nat cnt) (Z.of_nat idx) = true /\
  g_fulfill_position_safe (Z.of_nat cnt) (Z.of_nat idx) = true.
Proof. exact gen_positions. Qed.

Theorem C14_gen_hop_counts :
  forall n : nat,
  Z.of_nat (Nat.min n MAX_HOPS) = g_failure_hop_count (Z.of_nat n) /\
  Z.of_nat (Nat.min n MAX_HOPS) = g_fulfill_hop_count (Z.of_nat n).
Proof. exact gen_hop_counts. Qed.

Theorem C14_gen_failure_lengths :
  forall (hmac : bytes -> bytes -> bytes) (k : fkeys) (code : Z) (d : bytes) (m : nat),
  List.length (hmac (fk_um k) (failure_body code d m)) = 32 ->
  Z.of_nat (List.length (failure_plain hmac k code d m)) =
  g_total_len (g_failure_len (Z.of_nat (List.length d)))
              (g_pad_len (Z.of_nat m) (g_failure_len (Z.of_nat (List.length d)))).
Proof. exact gen_failure_lengths. Qed.

Theorem C14_gen_attr_indices :
  forall hmac_idx position j : nat,
  hmac_idx < MAX_HOPS -> position < MAX_HOPS -> j < MAX_HOPS ->
  Z.of_nat (MAX_HOPS - hmac_idx - 1) = g_add_hmacs_position (Z.of_nat hmac_idx) /\
  Z.of_nat (MAX_HOPS + MAX_HOPS - position - 1) = g_downstream_start (Z.of_nat position) /\
  Z.of_nat (MAX_HOPS - j - 1) = g_downstream_block_size (Z.of_nat j) /\
  Z.of_nat (MAX_HOPS - position - 1) = g_verify_hmac_idx (Z.of_nat position).
Proof. exact gen_attr_indices. Qed.

Theorem C14_gen_seek_pos :
  forall N pos : nat, pos <= N -> (Z.of_nat N < 2 ^ 32)%Z ->
  Z.of_nat (N - pos) = g_seek_pos (Z.of_nat N) (Z.of_nat pos) /\ g_seek_pos_safe (Z.of_nat N) (Z.of_nat pos) = true.
Proof. exact gen_seek_pos. Qed.

(** The same for the executable instance that is compared byte for byte with rust-lightning
    (ChaCha20 with the zero nonce, HMAC-SHA256, BigSize-framed payloads): no hypothesis on the
    primitives is left. *)
Theorem C14_ldk_peel_build :
  forall (noise : bytes) (hs : list (hopkeys * bytes)) (ad : bytes),
  hs <> [] ->
  Forall frame_ok (map snd hs) ->
  i_total_len hs <= List.length noise ->
  exists P0 : packet,
    i_build noise hs ad = Some P0 /\
    List.length (p_data P0) = List.length noise /\
    List.length (p_hmac P0) = 32 /\
    (i_layers_nonzero noise hs ad ->
     i_delivers (List.length noise) (map fst hs) ad P0 (map snd hs) /\
     i_peel_route (map fst hs) ad P0 = (map snd hs, None, true)).
Proof. exact ldk_peel_build. Qed.

Theorem C14_ldk_build_fails_iff :
  forall (noise : bytes) (hs : list (hopkeys * bytes)) (ad : bytes),
  i_build noise hs ad = None <-> hs = [] \/ List.length noise < i_total_len hs.
Proof. exact ldk_build_none_iff. Qed.

Theorem C14_ldk_failure_attributed :
  forall (before : list (fkeys * Z)) (ki : fkeys) (after : list fkeys) (code : Z) (d : bytes) (hold_i : Z),
  (0 <= code < 65536)%Z ->
  (2 + Z.of_nat (List.length d) < 65535)%Z ->
  no_spurious_match ks_chacha hmac_sha256 (map fst before)
    (crypt_data ks_chacha ki (failure_plain hmac_sha256 ki code d DEFAULT_MIN_FAILURE_PACKET_LEN)) ->
  fst (i_process_onion_failure (map fst before ++ ki :: after)
         (failure_at_sender ks_chacha hmac_sha256 before ki code d hold_i))
  = Attributed (List.length before) code d.
Proof. exact ldk_failure_attributed. Qed.

Theorem C14_ldk_hold_times_fulfill :
  forall hops : list (fkeys * Z),
  hops <> [] ->
  Forall (fun kh => (0 <= snd kh < 2 ^ 32)%Z) hops ->
  exists E : attribution,
    fulfill_at_sender ks_chacha hmac_sha256 hops = Some E /\
    i_decode_fulfill (map fst hops) E = firstn MAX_HOPS (map snd hops).
Proof. exact ldk_hold_times_fulfill. Qed.

(** * Non-vacuity: concrete routes satisfy the hypotheses (computed with the real primitives). *)

Definition ex_ss (i : Z) : bytes := repeat i 32.
Definition ex_hops : list (hopkeys * bytes) :=
  [(hopkeys_of_ss (ex_ss 1), [2; 1; 7; 4; 1; 9; 6; 8; 0; 0; 0; 0; 0; 0; 0; 1]%Z);
   (hopkeys_of_ss (ex_ss 2), [2; 1; 5; 4; 1; 8; 6; 8; 0; 0; 0; 0; 0; 0; 0; 2]%Z);
   (hopkeys_of_ss (ex_ss 3), [2; 1; 5; 4; 1; 8; 8; 3; 9; 9; 9]%Z)].
Definition ex_noise : bytes := ks_chacha (ex_ss 9) 150.
Definition ex_ad : bytes := ex_ss 7.

Example C14_example_fits : (i_total_len ex_hops <=? List.length ex_noise) = true.
Proof. vm_compute. reflexivity. Qed.

Example C14_example_payloads_ok : Forall frame_ok (map snd ex_hops).
Proof. unfold frame_ok. repeat (constructor; [cbn; lia|]). constructor. Qed.

Example C14_example_layers_nonzero : i_layers_nonzero ex_noise ex_hops ex_ad.
Proof. vm_compute. split; [intros H; discriminate H|]. split; [intros H; discriminate H|exact I]. Qed.

Example C14_example_delivered :
  match i_build ex_noise ex_hops ex_ad with
  | Some P0 => i_peel_route (map fst ex_hops) ex_ad P0 = (map snd ex_hops, None, true)
  | None => False
  end.
Proof. vm_compute. reflexivity. Qed.

Definition ex_fkeys (i : Z) : fkeys := fkeys_of_ss (ex_ss i).
Example C14_example_no_spurious :
  no_spurious_match ks_chacha hmac_sha256 [ex_fkeys 1; ex_fkeys 2]
    (crypt_data ks_chacha (ex_fkeys 3) (failure_plain hmac_sha256 (ex_fkeys 3) 4103 [0; 17]%Z DEFAULT_MIN_FAILURE_PACKET_LEN)).
Proof. vm_compute. split; [intros H; discriminate H|]. split; [intros H; discriminate H|exact I]. Qed.

Example C14_example_payload_ascending :
  let p := PBlindedReceive 1000 1000 800000 [1; 2; 3]%Z (Some [2; 5]%Z) (Some (repeat 7%Z 32))
             [(6000000001, [9]); (70001, [1; 2])]%Z (Some [4; 4]%Z) in
  map fst (payload_tlvs p) = [2; 4; 10; 12; 18; 70001; 77777; 5482373484; 6000000001]%Z.
Proof. vm_compute. reflexivity. Qed.
