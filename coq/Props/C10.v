(** C10 — restarting from persisted state is safe at every crash point (PARTIAL: what is proved here is
    the reload DECISION logic of [ChannelManager::from_channel_manager_data] for one channel and its
    composition with the monitor-update pipeline model of C09; everything else the reload does is
    validated by crash-point enumeration on real nodes, reported separately in the evidence).
    Only theorem statements closed by [exact]; model [Model/Restart.v] (+ [Model/MonUpd.v]), proofs
    [Proofs/C10.v]. *)
Require Import LdkV.Prim.U64 LdkV.Model.Restart LdkV.Model.MonUpd LdkV.Proofs.C09a LdkV.Proofs.C09b LdkV.Proofs.C09 LdkV.Proofs.C10.
Open Scope Z_scope.

(** A channel whose serialized manager state is behind its monitor on ANY of the four counters (holder
    commitment number, revoked counterparty commitment number, counterparty commitment number — these count
    down — or latest update id) is force-closed with the ChannelForceClosed update numbered monitor id + 1;
    it is closed ONLY then; a channel that is not closed is at or ahead of its monitor on all four. *)
Theorem C10_stale_is_closed_partial : forall (c : csnap) (m : msnap),
  (forall i, reload c m = Closed i <-> stale c m = true /\ i = ms_id m + 1) /\
  (stale c m = false ->
     cs_holder c <= ms_holder m /\ cs_revoked c <= ms_secret m /\ cs_cparty c <= ms_cparty m /\ ms_id m <= cs_latest c /\
     forall i, reload c m <> Closed i).
Proof. intros c m. split; [intros i; apply closed_iff_stale|apply stale_is_closed]. Qed.

(** A resumed channel replays exactly the in-flight updates its monitor does not contain yet, in their
    original order (nothing at or below the monitor's id), keeps exactly the blocked updates above the
    monitor's id, and reports MonitorUpdatesComplete only when every in-flight update is in the monitor. *)
Theorem C10_replay_exact_partial : forall (c : csnap) (m : msnap) r e b,
  reload c m = Resumed r e b ->
  (forall i, In i r -> In i (cs_inflight c) /\ ms_id m < i) /\
  (r <> [] -> forall i, In i (cs_inflight c) -> ms_id m < i -> In i r) /\
  (r = [] \/ r = filter (fun i => ms_id m <? i) (cs_inflight c)) /\
  b = filter (fun i => ms_id m <? i) (cs_blocked c) /\
  (e <> None -> r = [] /\ forall i, In i (cs_inflight c) -> i <= ms_id m).
Proof. exact replay_spec. Qed.

(** Crashing again during recovery, after any part of the replay landed (monitor moved up to [id'], the
    re-serialized manager still lists the same in-flight updates): the reload succeeds again, replays
    nothing new and nothing that already landed. *)
Theorem C10_replay_idempotent_partial : forall (c : csnap) (m : msnap) r e b id',
  reload c m = Resumed r e b -> ms_id m <= id' -> id' <= cs_latest c ->
  exists r' e' b', reload c (advance m id') = Resumed r' e' b' /\
    (forall i, In i r' -> In i r /\ id' < i) /\ (forall i, In i b' -> In i b /\ id' < i).
Proof. exact replay_idempotent. Qed.

(** Composition with the monitor-update pipeline (C09 model): take the ChannelManager snapshot in ANY
    reachable pipeline state (after any label list) and combine it with ANY monitor that contains at least
    every update reported complete by then — in particular any later monitor, and any monitor in which
    in-flight asynchronous writes did or did not land. The reload never answers DangerousValue. *)
Theorem C10_reload_total_partial : forall (c : cfg) (ls : list label) (holder revoked cparty : Z) (m : msnap),
  let s := reach c ls in
  (forall i, In i (done (gh s)) -> i <= ms_id m) -> base_of c <= ms_id m ->
  reload (snapshot_of s holder revoked cparty) m <> Dangerous.
Proof. exact reload_total. Qed.

Example C10_demo :
  reload demo_c (mkMsnap 4 100 101 100) = Resumed [5; 6] None [7] /\
  reload demo_c demo_m5 = Resumed [6] None [7] /\
  reload demo_c (mkMsnap 6 100 101 100) = Resumed [] (Some 6) [7] /\
  reload demo_c (mkMsnap 8 100 101 100) = Closed 9 /\
  reload demo_c (mkMsnap 5 99 101 100) = Closed 6 /\
  reload (mkCsnap 7 7 100 101 100 [5] []) demo_m5 = Dangerous.
Proof. exact demo_reload. Qed.
