(** C10 — restarting from persisted state is safe at every crash point (PARTIAL: what is proved here is
    the reload DECISION logic of [ChannelManager::from_channel_manager_data] for one channel and its
    composition with the monitor-update pipeline model of C09; everything else the reload does is
    validated by crash-point enumeration on real nodes, reported separately in the evidence).
    Only theorem statements closed by [exact]; model [Model/Restart.v] (+ [Model/MonUpd.v]), proofs
    [Proofs/C10.v]. *)
Require Import LdkV.Prim.U64 LdkV.Model.Restart LdkV.Model.MonUpd LdkV.Model.Recovery LdkV.Proofs.C09a LdkV.Proofs.C09b LdkV.Proofs.C09 LdkV.Proofs.C10 LdkV.Proofs.C10b.
Open Scope Z_scope.

(** A channel whose serialized manager state is behind its monitor on ANY of the four counters (holder
    commitment number, revoked counterparty commitment number, counterparty commitment number — these count
    down — or latest update id) is force-closed with the ChannelForceClosed update numbered monitor id + 1;
    it is closed ONLY then; a channel that is not closed is at or ahead of its monitor on all four. *)
Theorem C10_stale_is_closed_partial : forall (c : csnap) (m : msnap),
  (forall i, reload c m = Closed i <-> stale c m = true /\ i = ms_id m + 1) /\
  (stale c m = false ->
     cs_holder c <= ms_holder m /\ cs_revoked c <= ms_secret m /\ cs_cparty c <= ms_cparty m /\ ms_id m <= cs_latest c /\
     forall i, reload c m <> Closed i).
Proof. intros c m. split; [intros i; apply closed_iff_stale|apply stale_is_closed]. Qed.

(** A resumed channel replays exactly the in-flight updates its monitor does not contain yet, in their
    original order (nothing at or below the monitor's id), keeps exactly the blocked updates above the
    monitor's id, and reports MonitorUpdatesComplete only when every in-flight update is in the monitor. *)
Theorem C10_replay_exact_partial : forall (c : csnap) (m : msnap) r e b,
  reload c m = Resumed r e b ->
  (forall i, In i r -> In i (cs_inflight c) /\ ms_id m < i) /\
  (r <> [] -> forall i, In i (cs_inflight c) -> ms_id m < i -> In i r) /\
  (r = [] \/ r = filter (fun i => ms_id m <? i) (cs_inflight c)) /\
  b = filter (fun i => ms_id m <? i) (cs_blocked c) /\
  (e <> None -> r = [] /\ forall i, In i (cs_inflight c) -> i <= ms_id m).
Proof. exact replay_spec. Qed.

(** Crashing again during recovery, after any part of the replay landed (monitor moved up to [id'], the
    re-serialized manager still lists the same in-flight updates): the reload succeeds again, replays
    nothing new and nothing that already landed. *)
Theorem C10_replay_idempotent_partial : forall (c : csnap) (m : msnap) r e b id',
  reload c m = Resumed r e b -> ms_id m <= id' -> id' <= cs_latest c ->
  exists r' e' b', reload c (advance m id') = Resumed r' e' b' /\
    (forall i, In i r' -> In i r /\ id' < i) /\ (forall i, In i b' -> In i b /\ id' < i).
Proof. exact replay_idempotent. Qed.

(** Composition with the monitor-update pipeline (C09 model): take the ChannelManager snapshot in ANY
    reachable pipeline state (after any label list) and combine it with ANY monitor that contains at least
    every update reported complete by then — in particular any later monitor, and any monitor in which
    in-flight asynchronous writes did or did not land. The reload never answers DangerousValue. *)
Theorem C10_reload_total_partial : forall (c : cfg) (ls : list label) (holder revoked cparty : Z) (m : msnap),
  let s := reach c ls in
  (forall i, In i (done (gh s)) -> i <= ms_id m) -> base_of c <= ms_id m ->
  reload (snapshot_of s holder revoked cparty) m <> Dangerous.
Proof. exact reload_total. Qed.

Example C10_demo :
  reload demo_c (mkMsnap 4 100 101 100) = Resumed [5; 6] None [7] /\
  reload demo_c demo_m5 = Resumed [6] None [7] /\
  reload demo_c (mkMsnap 6 100 101 100) = Resumed [] (Some 6) [7] /\
  reload demo_c (mkMsnap 8 100 101 100) = Closed 9 /\
  reload demo_c (mkMsnap 5 99 101 100) = Closed 6 /\
  reload (mkCsnap 7 7 100 101 100 [5] []) demo_m5 = Dangerous.
Proof. exact demo_reload. Qed.


(** ------------------------------------------------------------------------------------------------------
    Second part (still PARTIAL in the sense above: decision logic + an abstract recovery machine). *)

(** (a) The in-flight replay filter, over ALL (manager snapshot, monitor) pairs: an in-flight update is replayed
    iff its id is above the monitor's ([replay_filter] is the pinned source expression
    `update.update_id > $monitor.get_latest_update_id()`); in particular the update whose id EQUALS the monitor's is
    never replayed (the `>=` mutant hands the monitor an id it already has). *)
Theorem C10_replay_filter_exact_partial : forall (c : csnap) (m : msnap) r e b,
  reload c m = Resumed r e b ->
  (forall i, In i r -> In i (cs_inflight c) /\ replay_filter (ms_id m) i = true) /\
  (forall i, In i (cs_inflight c) -> replay_filter (ms_id m) i = true -> In i r) /\
  (forall i, In i (cs_inflight c) -> i = ms_id m -> ~ In i r).
Proof. exact replay_iff. Qed.

(** With the in-flight list the pipeline produces (consecutive ids, C09_ids_gap_free) and a monitor that contains
    everything below it, the replayed sequence is gap-free and strictly increasing and starts at monitor id + 1:
    its k-th element is monitor id + 1 + k. *)
Theorem C10_replay_gap_free_partial : forall (c : csnap) (m : msnap) r e b a n,
  reload c m = Resumed r e b -> cs_inflight c = seqZ a n -> a <= ms_id m + 1 ->
  r = seqZ (ms_id m + 1) (List.length r) /\
  (forall k, (k < List.length r)%nat -> nth k r 0 = ms_id m + 1 + Z.of_nat k).
Proof. exact replay_gap_free. Qed.

(** (b) A channel closed as OutdatedChannelManager: the ChannelForceClosed update carries monitor id + 1, the
    closed_channel_monitor_update_ids entry is at least that (equal when there was none), and every later post-close
    update takes entry + 1, entry + 2, …: strictly increasing and above the close update. *)
Theorem C10_stale_close_ids_partial : forall (c : csnap) (m : msnap) (old : option Z) i,
  reload c m = Closed i ->
  let '(fc, entry) := stale_bookkeeping (ms_id m) old in
  fc = i /\ fc = ms_id m + 1 /\ fc <= entry /\ (old = None -> entry = fc) /\
  forall n k, (k < n)%nat ->
    nth k (post_close_ids entry n) 0 = entry + 1 + Z.of_nat k /\ fc < nth k (post_close_ids entry n) 0.
Proof. exact stale_close_ids. Qed.

(** (c) A ChannelMonitor without a channel in the manager: every such monitor that can still hold an unresolved HTLC
    (latest_update_id >= 2: more than creation + closure) gets a closed_channel_monitor_update_ids entry (and with it
    a PeerState) that is not below its id; one that still allows updates is always tracked and gets a ChannelForceClosed
    update numbered latest + 1 = its entry; only a fully closed monitor at id <= 1 is left untracked. *)
Theorem C10_closed_monitor_tracked_partial : forall (no_further_updates : bool) (latest : Z),
  (2 <= latest -> exists e, fst (closed_monitor no_further_updates latest) = Some e /\ latest <= e) /\
  (no_further_updates = false -> closed_monitor no_further_updates latest = (Some (latest + 1), Some (latest + 1))) /\
  (no_further_updates = true -> snd (closed_monitor no_further_updates latest) = None /\
     (fst (closed_monitor no_further_updates latest) = None <-> latest <= 1) /\
     (1 < latest -> fst (closed_monitor no_further_updates latest) = Some latest)).
Proof. exact closed_monitor_spec. Qed.

(** (d) on_startup_drop_completed_blocked_mon_updates_through drops exactly the held updates with id <= the monitor's;
    a resumed channel keeps exactly the others. *)
Theorem C10_blocked_drop_exact_partial : forall (mid : Z) (l : list Z),
  (forall i, In i (drop_blocked mid l) <-> In i l /\ mid < i) /\
  (forall i, In i l -> i <= mid -> ~ In i (drop_blocked mid l)) /\
  (forall c m r e b, reload c m = Resumed r e b -> b = drop_blocked (ms_id m) (cs_blocked c)).
Proof.
  intros mid l. destruct (drop_blocked_spec mid l) as (A & B & _). split; [exact A|]. split; [exact B|].
  exact reload_keeps_blocked.
Qed.

(** The reload queues NO background event for a resumed channel exactly when nothing is replayed, no
    MonitorUpdatesComplete is due and no held update is left. *)
Theorem C10_background_events_iff_partial : forall (c : csnap) (m : msnap) r e b,
  reload c m = Resumed r e b -> (background_events c m = [] <-> r = [] /\ e = None /\ b = []).
Proof. exact background_events_nonempty. Qed.

(** Finding F7, in the model: "a channel that is frozen (MONITOR_UPDATE_IN_PROGRESS) in the snapshot and resumed by the
    reload gets a background event that will thaw it" does NOT hold. Witness ([C10_F7_witness]): send; the peer's
    revoke_and_ack is held behind an unhandled event (flag set, nothing in flight) -> manager written; the event is
    handled, the held update is released and persisted; reload: not stale, the held update is dropped, nothing queued. *)
Theorem C10_frozen_resume_refuted_F7 :
  ~ (forall c ls ls' holder revoked cparty r e b,
       let s := reach c ls in let s' := reach c (ls ++ ls') in
       let snap := snapshot_of s holder revoked cparty in
       let m := mkMsnap (latest (ch s')) holder revoked cparty in
       mip (ch s) = true -> reload snap m = Resumed r e b -> background_events snap m <> []).
Proof. exact frozen_resume_refuted. Qed.

Example C10_F7_witness :
  mip (ch f7_state) = true /\ inflight (mg f7_state) = [] /\ ids (blocked (ch f7_state)) = [6] /\
  mip (ch f7_later) = false /\ done (gh f7_later) = [4; 5; 6] /\ ms_id f7_monitor = 6 /\
  stale f7_snapshot f7_monitor = false /\
  reload f7_snapshot f7_monitor = Resumed [] None [] /\
  background_events f7_snapshot f7_monitor = [].
Proof. exact f7_witness. Qed.

(** (2) Abstract crash recovery (one channel; durable monitor = id-indexed log prefix, completion reports, manager
    snapshots with their in-flight range, crash + reload through the SAME [reload] as above), for ALL op lists:
    the invariant holds ... *)
Theorem C10_recovery_invariant_partial : forall (base : Z) (ops : list dop), dinv (drun base ops).
Proof. exact drun_inv. Qed.

(** ... and in every reachable state: the durable monitor contains every update reported complete; a crash now never
    yields DangerousValue; the channel is closed (from the monitor's id) exactly when the written manager lags behind
    the durable monitor; otherwise it is resumed, the replay is the gap-free run monitor id + 1 .. manager's latest id,
    and after the reload the monitor still contains everything reported complete. *)
Theorem C10_recovery_safe_partial : forall (base : Z) (ops : list dop),
  let d := drun base ops in
  closed d = false ->
  comp d <= disk d /\ s_latest d <= handed d /\
  reload (snap_of d) (mon_of d) <> Dangerous /\
  (s_latest d < disk d -> reload (snap_of d) (mon_of d) = Closed (disk d + 1) /\ closed (dstep d DCrash) = true) /\
  (disk d <= s_latest d -> exists e,
     reload (snap_of d) (mon_of d) = Resumed (seqZ (disk d + 1) (Z.to_nat (s_latest d - disk d))) e [] /\
     closed (dstep d DCrash) = false /\ handed (dstep d DCrash) = s_latest d /\ disk (dstep d DCrash) = disk d /\
     comp (dstep d DCrash) <= disk (dstep d DCrash)).
Proof. exact recovery_safe. Qed.

Example C10_recovery_demo :
  let ops1 := [DApply; DApply; DLand; DComplete; DWriteMgr; DApply; DLand; DLand] in
  let ops2 := [DApply; DApply; DWriteMgr; DLand] in
  reload (snap_of (drun 4 ops1)) (mon_of (drun 4 ops1)) = Closed 8 /\
  closed (drun 4 (ops1 ++ [DCrash])) = true /\
  reload (snap_of (drun 4 ops2)) (mon_of (drun 4 ops2)) = Resumed [6] None [] /\
  drun 4 (ops2 ++ [DCrash; DLand; DComplete; DComplete]) = mkD 6 6 6 6 4 false.
Proof. exact recovery_demo. Qed.
