(** C12 — Persisted objects survive serialization unchanged: the part carried by Coq is the TLV layer
    of the persistence macros ([write_tlv_fields!]/[read_tlv_fields!], [impl_ser_tlv_based!],
    [impl_*_tlv_based_enum*!]), which is the same code as the wire TLV layer ([_decode_tlv_stream_range!]).
    Field VALUE codecs of persisted objects are not modelled: in the extracted schemas every field has
    the codec [FRest] (its own bytes), so the instantiated theorems are about FRAMING (names end in
    [_partial]).  Whole-object equality is judged on the implementation (h_persist). *)
Require Import LdkV.Prim.U64 LdkV.Codec.Combinators LdkV.Codec.Tlv LdkV.Gen.PersistSchemas.
Require Import LdkV.Proofs.C13Base LdkV.Proofs.C13Tlv LdkV.Proofs.C12.
Require Import LdkV.Codec.Persist LdkV.Proofs.C12Compat.
Open Scope Z_scope.

(** any TLV schema with strictly ascending types (required / option / optional_vec / default_value
    kinds), any field codecs, any values in the codecs' domains *)
Theorem C12_tlv_roundtrip : forall pk es vals, tlvs_wf es = true -> tlv_dom pk es vals = true ->
  tlv_dec pk es (tlv_enc es vals) = ROk vals.
Proof. exact tlv_roundtrip. Qed.

(** the length-prefixed suffix composes with whatever follows it *)
Theorem C12_suffix_roundtrip : forall pk es vals rest,
  tlvs_wf es = true -> tlv_dom pk es vals = true -> len (tlv_enc es vals) < 2 ^ 64 ->
  suffix_dec pk es (suffix_enc es vals ++ rest) = ROk (vals, rest).
Proof. exact suffix_roundtrip. Qed.

(** unknown odd fields are skipped wherever the ordering allows them ... *)
Theorem C12_tlv_unknown_odd_skipped : forall pk es1 es2 v1 v2 t w,
  tlvs_wf (es1 ++ es2) = true -> tlv_dom pk es1 v1 = true -> tlv_dom pk es2 v2 = true ->
  t mod 2 = 1 -> hi (-1) es1 < t < 2 ^ 64 -> tys_ascending t es2 = true -> len w < 2 ^ 64 ->
  tlv_dec pk (es1 ++ es2) (tlv_enc es1 v1 ++ rec_enc t w ++ tlv_enc es2 v2) = ROk (v1 ++ v2).
Proof. exact tlv_unknown_odd_ignored. Qed.

(** ... and unknown even ones are rejected, as are out-of-order / duplicate types and truncation *)
Theorem C12_tlv_unknown_even_rejected : forall pk es t r fuel last acc,
  find_entry es t = None -> t mod 2 = 0 -> 0 <= t < 2 ^ 64 ->
  lt_opt last t = true -> order_check es last t = true ->
  forall n r2, bigsize_dec r = ROk (n, r2) ->
  tlv_loop pk es (S fuel) last acc (bigsize_enc t ++ r) = RErr "UnknownRequiredFeature".
Proof. exact step_unknown_even. Qed.

Theorem C12_tlv_out_of_order_rejected : forall pk es t l r fuel acc,
  0 <= t < 2 ^ 64 -> t <= l ->
  tlv_loop pk es (S fuel) (Some l) acc (bigsize_enc t ++ r) = RErr "InvalidValue".
Proof. exact step_out_of_order. Qed.

Theorem C12_suffix_truncated_rejected : forall pk n w, 0 <= n < 2 ^ 64 -> len w < n -> bytes_ok w = true ->
  forall v r, suffix_dec pk [] (bigsize_enc n ++ w) <> ROk (v, r).
Proof. exact suffix_truncated. Qed.

(** every persistence macro invocation in lightning/src has strictly ascending TLV types
    (regenerated list; the Rust macros only [debug_assert!] this while writing) *)
Theorem C12_schemas_wf : forallb (fun s => tlvs_wf (snd s)) persist_schemas = true.
Proof. exact persist_schemas_wf. Qed.

(** every hand-written write-side TLV block (write_tlv_fields! / encode_tlv_stream!) is paired with the
    read-side block of the same file sharing its type numbers; for every TLV type on both sides the
    place WRITTEN (`self.x.y`, `htlc.mpp_part.sender_intended_value`, ...) and the variable READ INTO have
    the same normalised name, or the exact pair is in the pinned allowlist of legitimate renames
    (tools/codec/persist_pins.json).  Regenerated every run: writing `value` into the slot read as
    `sender_intended_value`, or reading two slots into each other's variables, fails this. *)
Theorem C12_field_pins : forallb pin_ok persist_field_pins = true.
Proof. exact persist_field_pins_ok. Qed.

(** hence the framing of every one of them round-trips (field values as opaque byte strings) *)
Theorem C12_framing_roundtrip_partial : forall pk name es vals rest, In (name, es) persist_schemas ->
  tlv_dom pk es vals = true -> len (tlv_enc es vals) < 2 ^ 64 ->
  suffix_dec pk es (suffix_enc es vals ++ rest) = ROk (vals, rest).
Proof. exact persist_roundtrip. Qed.

(** non-vacuity: a required + default + option schema with a concrete value *)
Example C12_example :
  let es := [mk_entry 0 KReq (FB (BU 8)); mk_entry 2 (KDefault [VZ 7]) (FB (BU 2)); mk_entry 3 KOpt FRest] in
  tlvs_wf es = true /\
  tlv_dom (fun _ => true) es [Some [VZ 5]; Some [VZ 9]; None] = true /\
  suffix_enc es [Some [VZ 5]; Some [VZ 9]; None] = [14; 0; 8; 0; 0; 0; 0; 0; 0; 0; 5; 2; 2; 0; 9] /\
  suffix_dec (fun _ => true) es [10; 0; 8; 0; 0; 0; 0; 0; 0; 0; 5; 99] = ROk ([Some [VZ 5]; Some [VZ 7]; None], [99]) /\
  suffix_dec (fun _ => true) es [4; 2; 2; 0; 9] = RErr "InvalidValue".
Proof. repeat split; vm_compute; reflexivity. Qed.

(** ---------------------------------------------------------------------------------------------
    Compatibility across versions of a schema (what fix eef008b relies on). *)

(** A writer that ADDS an odd TLV anywhere in a schema is still read by the OLD schema with the same
    values for all old fields (any schema, any position, any codec of the new field). *)
Theorem C12_odd_extension_compatible : forall pk es1 e es2 v1 ov v2,
  tlvs_wf (es1 ++ e :: es2) = true -> e_ty e mod 2 = 1 ->
  tlv_dom pk es1 v1 = true -> entry_dom pk e ov = true -> tlv_dom pk es2 v2 = true ->
  tlv_dec pk (es1 ++ es2) (tlv_enc (es1 ++ e :: es2) (v1 ++ ov :: v2)) = ROk (v1 ++ v2).
Proof. exact odd_extension_old_reader. Qed.

(** Data written by the OLD schema reads under the NEW one; the added optional field takes its absent
    value ([None]; the empty vector for optional_vec). *)
Theorem C12_old_data_reads_under_extension : forall pk es1 e es2 v1 v2,
  tlvs_wf (es1 ++ e :: es2) = true -> (e_kind e = KOpt \/ e_kind e = KOptVec) ->
  tlv_dom pk es1 v1 = true -> tlv_dom pk es2 v2 = true ->
  tlv_dec pk (es1 ++ e :: es2) (tlv_enc (es1 ++ es2) (v1 ++ v2)) = ROk (v1 ++ absent_value e :: v2).
Proof. exact old_data_new_reader. Qed.

(** Both, for every split of every regenerated persistence schema and every new odd entry that fits
    between the two halves. *)
Theorem C12_persist_schemas_odd_extensible : forall pk name es1 es2 e v1 ov v2,
  In (name, es1 ++ es2) persist_schemas ->
  e_ty e mod 2 = 1 -> hi (-1) es1 < e_ty e < 2 ^ 64 -> tys_ascending (e_ty e) es2 = true -> fc_wf (e_fc e) = true ->
  tlv_dom pk es1 v1 = true -> entry_dom pk e ov = true -> tlv_dom pk es2 v2 = true ->
  tlv_dec pk (es1 ++ es2) (tlv_enc (es1 ++ e :: es2) (v1 ++ ov :: v2)) = ROk (v1 ++ v2) /\
  ((e_kind e = KOpt \/ e_kind e = KOptVec) ->
   tlv_dec pk (es1 ++ e :: es2) (tlv_enc (es1 ++ es2) (v1 ++ v2)) = ROk (v1 ++ absent_value e :: v2)).
Proof. exact persist_odd_extension. Qed.

(** default_value / required semantics.  [relax] turns (default_value, d) entries into option entries:
    the domain [tlv_dom (map relax es)] therefore ALLOWS a defaulted field to be absent; [fill_all]
    puts [Some d] exactly there.  A required field the writer never reached is rejected. *)
Theorem C12_default_value_semantics : forall pk es vals, tlvs_wf es = true -> tlv_dom pk (map relax es) vals = true ->
  tlv_dec pk es (tlv_enc es vals) = ROk (fill_all es vals).
Proof. exact default_value_roundtrip. Qed.

Theorem C12_persist_schemas_default_semantics : forall pk name es vals, In (name, es) persist_schemas ->
  tlv_dom pk (map relax es) vals = true -> tlv_dec pk es (tlv_enc es vals) = ROk (fill_all es vals).
Proof. exact persist_default_roundtrip. Qed.

Theorem C12_required_missing_rejected : forall pk es1 e es2 v1,
  tlvs_wf (es1 ++ e :: es2) = true -> e_kind e = KReq -> tlv_dom pk es1 v1 = true ->
  tlv_dec pk (es1 ++ e :: es2) (tlv_enc es1 v1) = RErr "InvalidValue".
Proof. exact required_missing_rejected. Qed.

Theorem C12_required_empty_stream_rejected : forall pk es e, In e es -> e_kind e = KReq -> tlv_dec pk es [] = RErr "InvalidValue".
Proof. exact required_empty_stream_rejected. Qed.

(** ---------------------------------------------------------------------------------------------
    Version prefix ([write_ver_prefix!] / [read_ver_prefix!]). *)
Theorem C12_version_prefix_roundtrip : forall supported ver min_ver r, min_ver <= supported ->
  ver_dec supported (ver_enc ver min_ver ++ r) = ROk (ver, r).
Proof. exact ver_roundtrip. Qed.

Theorem C12_version_too_new_rejected : forall supported ver min_ver r, supported < min_ver ->
  ver_dec supported (ver :: min_ver :: r) = RErr "UnknownVersion".
Proof. exact ver_too_new_rejected. Qed.

(** For every persisted top-level object (SERIALIZATION_VERSION / MIN_SERIALIZATION_VERSION re-read from
    the source on every run): what this version writes this version reads, and anything that declares
    a larger minimum reader version is rejected with UnknownVersion. *)
Theorem C12_persist_versions : forallb version_ok persist_versions = true /\
  forall name v m, In (name, v, m) persist_versions ->
    (forall r, ver_dec v (ver_enc v m ++ r) = ROk (v, r)) /\
    (forall ver' min' r, v < min' -> ver_dec v (ver' :: min' :: r) = RErr "UnknownVersion").
Proof. exact (conj persist_versions_ok persist_version_prefix). Qed.

(** ---------------------------------------------------------------------------------------------
    Whole objects of the simple class: version prefix ++ self-delimiting base fields ++ TLV suffix.
    (Which of LDK's hand-written objects fall in this class is NOT extracted: their non-TLV prefixes
    contain nested objects, maps and vectors of objects; for those the statement stays
    [C12_framing_roundtrip_partial].) *)
Theorem C12_prefixed_object_roundtrip : forall pk supported ver min_ver l es vs vals rest,
  min_ver <= supported -> seq_dom pk l vs = true -> tlvs_wf es = true -> tlv_dom pk es vals = true ->
  len (tlv_enc es vals) < 2 ^ 64 ->
  obj_dec pk supported l es (obj_enc ver min_ver l es vs vals ++ rest) = ROk (ver, vs, vals, rest).
Proof. exact prefixed_object_roundtrip. Qed.

(** ---------------------------------------------------------------------------------------------
    Injectivity: the encoder reads every field from its own slot, so two states that differ in ANY
    field have different encodings (and the reader returns exactly what was put in each slot, by the
    round trip).  This is the formal reason why writing another accessor into a slot (seeded C12-r2-3)
    is observable; [C12_field_pins] is the syntactic check that no writer does so. *)
Theorem C12_encoding_injective : forall pk es a b, tlvs_wf es = true -> tlv_dom pk es a = true -> tlv_dom pk es b = true ->
  tlv_enc es a = tlv_enc es b -> a = b.
Proof. exact tlv_enc_injective. Qed.

Theorem C12_suffix_encoding_injective : forall pk es a b, tlvs_wf es = true -> tlv_dom pk es a = true -> tlv_dom pk es b = true ->
  len (tlv_enc es a) < 2 ^ 64 -> len (tlv_enc es b) < 2 ^ 64 ->
  suffix_enc es a = suffix_enc es b -> a = b.
Proof. exact suffix_enc_injective. Qed.

(** non-vacuity of the new theorems: LegacyChannelConfig-like schema before/after eef008b (odd TLV 7 with a
    default), a defaulted field absent, a required field missing, the channel's version pair *)
Example C12_compat_example :
  let old := [mk_entry 0 KReq (FB (BU 4)); mk_entry 6 KReq (FB BBool); mk_entry 8 KReq (FB (BU 4))] in
  let e7 := mk_entry 7 KOpt (FB BBool) in
  let d7 := mk_entry 7 (KDefault [VZ 0]) (FB BBool) in
  let es1 := [mk_entry 0 KReq (FB (BU 4)); mk_entry 6 KReq (FB BBool)] in
  let es2 := [mk_entry 8 KReq (FB (BU 4))] in
  tlvs_wf (es1 ++ e7 :: es2) = true /\
  (* new writer, old reader *)
  tlv_dec (fun _ => true) old (tlv_enc (es1 ++ e7 :: es2) [Some [VZ 9]; Some [VZ 1]; Some [VZ 1]; Some [VZ 1000]])
    = ROk [Some [VZ 9]; Some [VZ 1]; Some [VZ 1000]] /\
  (* old writer, new reader with the documented default *)
  tlv_dec (fun _ => true) (es1 ++ d7 :: es2) (tlv_enc old [Some [VZ 9]; Some [VZ 1]; Some [VZ 1000]])
    = ROk [Some [VZ 9]; Some [VZ 1]; Some [VZ 0]; Some [VZ 1000]] /\
  tlv_dom (fun _ => true) (map relax (es1 ++ d7 :: es2)) [Some [VZ 9]; Some [VZ 1]; None; Some [VZ 1000]] = true /\
  fill_all (es1 ++ d7 :: es2) [Some [VZ 9]; Some [VZ 1]; None; Some [VZ 1000]] = [Some [VZ 9]; Some [VZ 1]; Some [VZ 0]; Some [VZ 1000]] /\
  (* the writer stopped before the required TLV 8 *)
  tlv_dec (fun _ => true) old (tlv_enc es1 [Some [VZ 9]; Some [VZ 1]]) = RErr "InvalidValue" /\
  (* two states differing in one field *)
  tlv_enc old [Some [VZ 9]; Some [VZ 1]; Some [VZ 1000]] <> tlv_enc old [Some [VZ 9]; Some [VZ 1]; Some [VZ 1001]] /\
  In ("channel.rs"%string, 4, 4) persist_versions /\
  ver_dec 4 (ver_enc 4 4 ++ [42]) = ROk (4, [42]) /\ ver_dec 4 [5; 5; 42] = RErr "UnknownVersion" /\
  obj_dec (fun _ => true) 1 [BU 8; BBool] old (obj_enc 1 1 [BU 8; BBool] old [VZ 77; VZ 1] [Some [VZ 9]; Some [VZ 1]; Some [VZ 1000]] ++ [3])
    = ROk (1, [VZ 77; VZ 1], [Some [VZ 9]; Some [VZ 1]; Some [VZ 1000]], [3]).
Proof. repeat split; try (vm_compute; reflexivity). vm_compute. discriminate. vm_compute. tauto. Qed.
