(** C12 — Persisted objects survive serialization unchanged: the part carried by Coq is the TLV layer
    of the persistence macros ([write_tlv_fields!]/[read_tlv_fields!], [impl_ser_tlv_based!],
    [impl_*_tlv_based_enum*!]), which is the same code as the wire TLV layer ([_decode_tlv_stream_range!]).
    Field VALUE codecs of persisted objects are not modelled: in the extracted schemas every field has
    the codec [FRest] (its own bytes), so the instantiated theorems are about FRAMING (names end in
    [_partial]).  Whole-object equality is judged on the implementation (h_persist). *)
Require Import LdkV.Prim.U64 LdkV.Codec.Combinators LdkV.Codec.Tlv LdkV.Gen.PersistSchemas.
Require Import LdkV.Proofs.C13Base LdkV.Proofs.C13Tlv LdkV.Proofs.C12.
Open Scope Z_scope.

(** any TLV schema with strictly ascending types (required / option / optional_vec / default_value
    kinds), any field codecs, any values in the codecs' domains *)
Theorem C12_tlv_roundtrip : forall pk es vals, tlvs_wf es = true -> tlv_dom pk es vals = true ->
  tlv_dec pk es (tlv_enc es vals) = ROk vals.
Proof. exact tlv_roundtrip. Qed.

(** the length-prefixed suffix composes with whatever follows it *)
Theorem C12_suffix_roundtrip : forall pk es vals rest,
  tlvs_wf es = true -> tlv_dom pk es vals = true -> len (tlv_enc es vals) < 2 ^ 64 ->
  suffix_dec pk es (suffix_enc es vals ++ rest) = ROk (vals, rest).
Proof. exact suffix_roundtrip. Qed.

(** unknown odd fields are skipped wherever the ordering allows them ... *)
Theorem C12_tlv_unknown_odd_skipped : forall pk es1 es2 v1 v2 t w,
  tlvs_wf (es1 ++ es2) = true -> tlv_dom pk es1 v1 = true -> tlv_dom pk es2 v2 = true ->
  t mod 2 = 1 -> hi (-1) es1 < t < 2 ^ 64 -> tys_ascending t es2 = true -> len w < 2 ^ 64 ->
  tlv_dec pk (es1 ++ es2) (tlv_enc es1 v1 ++ rec_enc t w ++ tlv_enc es2 v2) = ROk (v1 ++ v2).
Proof. exact tlv_unknown_odd_ignored. Qed.

(** ... and unknown even ones are rejected, as are out-of-order / duplicate types and truncation *)
Theorem C12_tlv_unknown_even_rejected : forall pk es t r fuel last acc,
  find_entry es t = None -> t mod 2 = 0 -> 0 <= t < 2 ^ 64 ->
  lt_opt last t = true -> order_check es last t = true ->
  forall n r2, bigsize_dec r = ROk (n, r2) ->
  tlv_loop pk es (S fuel) last acc (bigsize_enc t ++ r) = RErr "UnknownRequiredFeature".
Proof. exact step_unknown_even. Qed.

Theorem C12_tlv_out_of_order_rejected : forall pk es t l r fuel acc,
  0 <= t < 2 ^ 64 -> t <= l ->
  tlv_loop pk es (S fuel) (Some l) acc (bigsize_enc t ++ r) = RErr "InvalidValue".
Proof. exact step_out_of_order. Qed.

Theorem C12_suffix_truncated_rejected : forall pk n w, 0 <= n < 2 ^ 64 -> len w < n -> bytes_ok w = true ->
  forall v r, suffix_dec pk [] (bigsize_enc n ++ w) <> ROk (v, r).
Proof. exact suffix_truncated. Qed.

(** every persistence macro invocation in lightning/src has strictly ascending TLV types
    (regenerated list; the Rust macros only [debug_assert!] this while writing) *)
Theorem C12_schemas_wf : forallb (fun s => tlvs_wf (snd s)) persist_schemas = true.
Proof. exact persist_schemas_wf. Qed.

(** every hand-written write-side TLV block (write_tlv_fields! / encode_tlv_stream!) is paired with the
    read-side block of the same file sharing its type numbers; for every TLV type on both sides the
    place WRITTEN (`self.x.y`, `htlc.mpp_part.sender_intended_value`, ...) and the variable READ INTO have
    the same normalised name, or the exact pair is in the pinned allowlist of legitimate renames
    (tools/codec/persist_pins.json).  Regenerated every run: writing `value` into the slot read as
    `sender_intended_value`, or reading two slots into each other's variables, fails this. *)
Theorem C12_field_pins : forallb pin_ok persist_field_pins = true.
Proof. exact persist_field_pins_ok. Qed.

(** hence the framing of every one of them round-trips (field values as opaque byte strings) *)
Theorem C12_framing_roundtrip_partial : forall pk name es vals rest, In (name, es) persist_schemas ->
  tlv_dom pk es vals = true -> len (tlv_enc es vals) < 2 ^ 64 ->
  suffix_dec pk es (suffix_enc es vals ++ rest) = ROk (vals, rest).
Proof. exact persist_roundtrip. Qed.

(** non-vacuity: a required + default + option schema with a concrete value *)
Example C12_example :
  let es := [mk_entry 0 KReq (FB (BU 8)); mk_entry 2 (KDefault [VZ 7]) (FB (BU 2)); mk_entry 3 KOpt FRest] in
  tlvs_wf es = true /\
  tlv_dom (fun _ => true) es [Some [VZ 5]; Some [VZ 9]; None] = true /\
  suffix_enc es [Some [VZ 5]; Some [VZ 9]; None] = [14; 0; 8; 0; 0; 0; 0; 0; 0; 0; 5; 2; 2; 0; 9] /\
  suffix_dec (fun _ => true) es [10; 0; 8; 0; 0; 0; 0; 0; 0; 0; 5; 99] = ROk ([Some [VZ 5]; Some [VZ 7]; None], [99]) /\
  suffix_dec (fun _ => true) es [4; 2; 2; 0; 9] = RErr "InvalidValue".
Proof. repeat split; vm_compute; reflexivity. Qed.
