(** C06 -- Any revoked commitment the counterparty confirms is fully punished.
    Only theorem statements closed by [exact]; proofs in Proofs/C06Justice.v (and
    Proofs/C05Shachain.v for the secret store); model in Model/Justice.v. *)
Require Import LdkV.Prim.U64 LdkV.Model.Shachain LdkV.Model.Justice LdkV.Proofs.C06Justice
  LdkV.Gen.Consts LdkV.Gen.Package LdkV.Proofs.C06Fee LdkV.Crypto.Sha256 LdkV.Gen.C06Pins.
(* (not imported: their names -- tx, step, run, filter_block -- would shadow those of Model/Justice.v) *)
Require LdkV.Model.ChainView LdkV.Proofs.C11 LdkV.Proofs.C06Reorg LdkV.Model.PackageTimer LdkV.Proofs.C06Bump.
Open Scope Z_scope.

(** For EVERY hash function, seed, assignment of commitments (any HTLC lists, dust or not, both
    directions, any sources; txids distinct) and number [n <= 2^48] of completed update rounds: the
    monitor accepts the whole history, and for EVERY revoked commitment [j < n] -- not just the
    latest -- it can still produce the revocation secret and still holds the HTLC list with its
    output indices (only the sources were pruned). *)
Theorem C06_memory_suffices : forall (H : bytes -> bytes) seed (commit : nat -> ccommit),
  (forall i j : nat, cc_txid (commit i) = cc_txid (commit j) -> i = j) ->
  forall n : nat, Z.of_nat n <= 2 ^ 48 ->
  exists m, apply_all H mon_init (history H seed commit n) = Some m /\
    get_min_seen_secret (m_secrets m) = 2 ^ 48 - Z.of_nat n /\
    forall j : nat, (j < n)%nat ->
      get_secret H (m_secrets m) (FIRSTN - Z.of_nat j) = Some (build_commitment_secret H seed (FIRSTN - Z.of_nat j)) /\
      claimable_get (m_claimable m) (cc_txid (commit j)) = Some (map drop_src (cc_htlcs (commit j))).
Proof. exact memory_suffices. Qed.

(** When the transaction of ANY revoked commitment [j] of such a history confirms, the monitor
    asks to claim exactly: every output carrying the revokeable script of that number (the
    cheater's balance), then every HTLC output, both directions, in the order of the stored list. *)
Theorem C06_all_outputs_claimed : forall (H : bytes -> bytes) seed (commit : nat -> ccommit),
  (forall i j : nat, cc_txid (commit i) = cc_txid (commit j) -> i = j) ->
  forall (n j : nat) (tx : ctx), Z.of_nat n <= 2 ^ 48 -> (j < n)%nat ->
  t_txid tx = cc_txid (commit j) -> t_number tx = FIRSTN - Z.of_nat j ->
  htlcs_match (t_outs tx) (cc_htlcs (commit j)) ->
  exists m, apply_all H mon_init (history H seed commit n) = Some m /\
    justice H m tx = revokeable_outs (t_txid tx) (t_number tx) 0 (t_outs tx)
                     ++ map (pair (t_txid tx)) (htlc_idxs (cc_htlcs (commit j))).
Proof. exact all_outputs_claimed. Qed.

(** the revokeable part is exactly the outputs whose script is the revokeable script of that number *)
Theorem C06_revokeable_outputs_exact : forall txid k outs i0 op,
  In op (revokeable_outs txid k i0 outs) <->
  exists j : nat, (j < List.length outs)%nat /\ op = (txid, i0 + Z.of_nat j) /\
                  o_kind (nth j outs (mkOut OOtherScript (-1))) = ORevokeable k.
Proof. exact revokeable_outs_spec. Qed.

(** nothing is claimed twice *)
Theorem C06_no_duplicate_claims : forall txid k outs hs,
  NoDup (htlc_idxs hs) ->
  (forall i, In i (htlc_idxs hs) -> 0 <= i /\ o_kind (nth (Z.to_nat i) outs (mkOut OOtherScript (-1))) = OOtherScript) ->
  NoDup (revokeable_outs txid k 0 outs ++ map (pair txid) (htlc_idxs hs)).
Proof. exact claims_nodup. Qed.

(** The block filter: a transaction is relevant as soon as ANY of its inputs -- at any position --
    spends an output of a transaction matched earlier in the same block (or a watched outpoint). *)
Theorem C06_block_filter_any_input : forall watched matched tx inp,
  In inp (s_ins tx) -> In (fst (fst inp)) matched -> relevant watched matched tx = true.
Proof. exact relevant_child. Qed.

Theorem C06_block_filter_is_relevant : forall watched matched tx tl,
  filter_block watched matched (tx :: tl) =
  if relevant watched matched tx then tx :: filter_block watched (s_txid tx :: matched) tl
  else filter_block watched matched tl.
Proof. exact filter_block_unfold. Qed.

(** Second stage, general form: for ANY list [S] of cheater transactions (any number of inputs each,
    the HTLC inputs at any position, extra fee inputs before / between / after them) none of which spends
    a second-stage output of another: the tracked claims become the claims none of them spent plus,
    for every input [i] that spends the commitment with a 5-element witness, output [i] of its
    transaction. *)
Theorem C06_second_stage : forall (H : bytes -> bytes) m k ctxid sec,
  get_secret H (m_secrets m) k = Some sec ->
  forall (S : list stx) claims,
  (forall t t' op, In t S -> In t' S -> In op (second_stage ctxid t) -> spends t' op = false) ->
  fold_left (track H m k ctxid) S claims =
  filter (fun op => negb (existsb (fun t => spends t op) S)) claims ++ flat_map (second_stage ctxid) S.
Proof. exact track_all. Qed.

Theorem C06_second_stage_outputs_exact : forall ctxid htxid nout ins i0 op,
  In op (second_stage_outs ctxid htxid nout i0 ins) <->
  exists j : nat, (j < List.length ins)%nat /\ op = (htxid, i0 + Z.of_nat j) /\
    fst (fst (nth j ins (0, 0, 0))) = ctxid /\ snd (nth j ins (0, 0, 0)) = 5 /\ i0 + Z.of_nat j < nout.
Proof. exact second_stage_outs_spec. Qed.

(** SAME-BLOCK delivery: the block holds the revoked commitment [C] followed, in ANY order, by cheater
    transactions spending its outputs and by unrelated transactions. The commitment's outputs were not
    watched when the block arrived; nevertheless every cheater transaction is seen, and at the end of
    the block the tracked claims are the justice claims none of them spent plus all their
    second-stage outputs. *)
Theorem C06_second_stage_same_block : forall (H : bytes -> bytes) m watched funding (tx : ctx) sec
    (C : stx) (S : list stx) (U : list Z),
  get_min_seen_secret (m_secrets m) <= t_number tx ->
  get_secret H (m_secrets m) (t_number tx) = Some sec ->
  s_txid C = t_txid tx -> spends_outpoint funding (s_ins C) = true ->
  spends_watched watched (s_ins C) = true ->
  In (t_txid tx) U -> (forall t, In t S -> In (s_txid t) U) ->
  (forall t, In t S -> spends_tx (t_txid tx) t = false -> unrelated watched U t) ->
  (forall t t' op, In t S -> In t' S -> In op (second_stage (t_txid tx) t) -> spends t' op = false) ->
  process_block H m watched funding tx false [] (C :: S) =
  (true,
   filter (fun op => negb (existsb (fun t => spends t op) (filter (spends_tx (t_txid tx)) S))) (justice H m tx)
   ++ flat_map (second_stage (t_txid tx)) (filter (spends_tx (t_txid tx)) S)).
Proof. exact same_block_second_stage. Qed.

(** ** Fee adequacy of re-issued claims ([feerate_bump] as regenerated from package.rs) *)

(** when the capped fresh estimate exceeds the previous feerate, a bump pays at least the fee that
    estimate asks for this weight -- however far the fee market moved, not merely previous + 25 % *)
Theorem C06_bump_follows_estimate : forall w amt dust p strat sweep fee' rate',
  0 < w -> 0 <= p ->
  strat <> FeerateStrategy_RetryPrevious ->
  feerate_bump w amt dust p strat sweep = Some (fee', rate') ->
  p < capped_estimate amt w sweep ->
  capped_estimate amt w sweep * w / 1000 <= fee'.
Proof. exact bump_follows_estimate. Qed.

Theorem C06_bump_never_lowers_fee : forall w amt dust p strat sweep fee' rate',
  0 < w -> 0 <= p ->
  feerate_bump w amt dust p strat sweep = Some (fee', rate') ->
  p * w / 1000 <= fee'.
Proof. exact bump_never_lowers_fee. Qed.

(** one unconfirmed claim over any number of blocks and ANY fee-estimate trajectory [est], with any
    timer function that stays within LOW_FREQUENCY_BUMP_INTERVAL (C07 proves this of get_height_timer),
    while bumps stay affordable: it is re-issued at least every LOW_FREQUENCY_BUMP_INTERVAL blocks; every
    re-issue pays at least the previous fee and at least what the capped estimate of that height asks
    whenever that exceeds the previous feerate *)
Theorem C06_bumped_until_buried : forall (w amt dust : Z) (est timer : Z -> Z),
  0 < w -> (forall h, h < timer h <= h + LOW_FREQUENCY_BUMP_INTERVAL) ->
  forall c0 h0, 0 <= c_rate c0 ->
  h0 < c_timer c0 <= c_last c0 + LOW_FREQUENCY_BUMP_INTERVAL -> c_last c0 <= h0 ->
  forall n : nat,
  (forall k : nat, (k < n)%nat -> forall c, affordable w amt dust est c (h0 + Z.of_nat (S k))) ->
  let '(c, log) := run_blocks w amt dust est timer c0 h0 n in
  0 <= c_rate c /\
  h0 + Z.of_nat n < c_timer c <= c_last c + LOW_FREQUENCY_BUMP_INTERVAL /\ c_last c <= h0 + Z.of_nat n /\
  forall pre h f r post, log = pre ++ (h, f, r) :: post ->
    let prev := match rev pre with [] => (c_rate c0, c_fee c0) | (_, f', r') :: _ => (r', f') end in
    fst prev * w / 1000 <= f /\
    (fst prev < capped_estimate amt w (est h) -> capped_estimate amt w (est h) * w / 1000 <= f).
Proof. exact bumped_until_buried. Qed.

(** transactions that touch neither a tracked outpoint nor the revoked commitment change nothing *)
Theorem C06_unrelated_tx_ignored : forall (H : bytes -> bytes) m k ctxid claims tx,
  (forall op, In op claims -> spends tx op = false) ->
  (forall inp, In inp (s_ins tx) -> fst (fst inp) <> ctxid) ->
  track H m k ctxid claims tx = claims.
Proof. exact track_unrelated. Qed.

(** ** Non-vacuity: a concrete history with SHA-256: four update rounds, the commitment of round 1
    (three updates old) has a dust HTLC, an offered and a received non-dust HTLC; its transaction
    confirms; the claim set is the revokeable output and both HTLC outputs. *)
Definition ex_commit (j : nat) : ccommit :=
  mkCC (FIRSTN - Z.of_nat j) (1000 + Z.of_nat j)
       (if Nat.eqb j 1 then [mkHtlc true 5000000 (Some 2) (Some 7); mkHtlc false 100000 None (Some 8);
                              mkHtlc false 7000000 (Some 1) None]
        else []).
Example C06_example_claims :
  match apply_all sha256 mon_init (history sha256 (repeat 5 32) ex_commit 4) with
  | Some m => justice sha256 m (mkCtx 1001 (FIRSTN - 1)
                 [mkOut OOtherScript 300000; mkOut OOtherScript 7000; mkOut OOtherScript 5000;
                  mkOut (ORevokeable (FIRSTN - 1)) 600000])
  | None => []
  end = [(1001, 3); (1001, 2); (1001, 1)].
Proof. vm_compute. reflexivity. Qed.

(** same-block non-vacuity: the commitment (txid 1001) and, later in the same block, a cheater
    transaction whose FIRST input is a fee input and whose second input spends HTLC output 2: it is
    seen, the claim on (1001,2) is replaced by a claim on output 1 of that transaction *)
Example C06_example_same_block :
  match apply_all sha256 mon_init (history sha256 (repeat 5 32) ex_commit 4) with
  | Some m => process_block sha256 m [(77, 0)] (77, 0)
                (mkCtx 1001 (FIRSTN - 1)
                   [mkOut OOtherScript 300000; mkOut OOtherScript 7000; mkOut OOtherScript 5000;
                    mkOut (ORevokeable (FIRSTN - 1)) 600000])
                false []
                [mkStx 1001 [(77, 0, 4)] 4; mkStx 555 [(9, 0, 2)] 1; mkStx 2002 [(8, 1, 2); (1001, 2, 5)] 2]
  | None => (false, [])
  end = (true, [(1001, 3); (1001, 1); (2002, 1)]).
Proof. vm_compute. reflexivity. Qed.

(** a 20x fee spike: the regenerated [feerate_bump] moves a 1000-weight claim of 1 000 000 sat from
    253 to the new estimate at once *)
Example C06_example_spike :
  feerate_bump 1000 1000000 546 253 FeerateStrategy_ForceBump 5060 = Some (5060, 5060).
Proof. vm_compute. reflexivity. Qed.

(** * Reorganisations: what the monitor awaits and what it has concluded depends on the FINAL chain only

    Model: Model/ChainView.v (C11's transliteration of [transactions_confirmed] / [block_confirmed] /
    [blocks_disconnected]; validated against real monitors by C11's check and, for justice claims, by
    the reorg scenarios of h_justice). For EVERY history of block connections and disconnections -- a
    disconnection names any block of the current chain below the tip as the fork point (the last block
    KEPT), as long as it is fewer than ANTI_REORG_DELAY below the highest tip seen so far --, that ends
    at its highest tip: the awaiting-threshold-confirmation table, the set of finished transactions
    and the set of conclusions drawn (MaturingOutput -> SpendableOutputs, HTLC resolutions, ...) are
    those of the straight-line delivery of the final chain. In particular the entry of a justice
    transaction sitting IN the fork-point block survives the disconnection and matures exactly once. *)
Theorem C06_reorg_history_is_straight_line : forall h0 hash0 hs,
  let st0 := C11.fresh h0 hash0 in
  let final := C06Reorg.final_stack [] hs in
  C06Reorg.hist_ok [] st0 h0 hs ->
  ChainView.best_h (ChainView.run st0 (map C06Reorg.hop_op hs)) = C06Reorg.final_max h0 hs ->
  C11.view_eq (ChainView.run st0 (map C06Reorg.hop_op hs)) (ChainView.run st0 (map ChainView.BC (rev final))).
Proof. exact C06Reorg.reorg_history_is_straight_line. Qed.

(** the boundary case by itself: [blocks_disconnected(f)] keeps every entry recorded at the height of [f] *)
Theorem C06_fork_point_entry_survives : forall st f e,
  In e (ChainView.awaiting st) -> ChainView.e_height e = ChainView.b_height f ->
  In e (ChainView.awaiting (ChainView.step st (ChainView.BD f))).
Proof. exact C06Reorg.fork_point_entry_survives. Qed.

(** the comparisons behind [BD], the reorg branch of [BB], [TU] and OnchainTxHandler's own table,
    re-read from channelmonitor.rs / onchaintx.rs on every run *)
Theorem C06_reorg_source_pins :
  monitor_blocks_disconnected_retain = "entry.height <= new_height"%string /\
  monitor_best_block_reorg_retain = "entry.height <= height"%string /\
  monitor_transaction_unconfirmed_drop = "entry.height >= removed_height"%string /\
  onchaintx_blocks_disconnected_drop = "entry.height > new_best_height"%string.
Proof. exact C06Reorg.reorg_source_pins. Qed.

(** non-vacuity: a justice transaction (id 7, one MaturingOutput needing ANTI_REORG_DELAY = 6
    confirmations) confirms at height 101; two more blocks; the two blocks above it are reorganised out
    with the fork point ON its block; a different branch grows to 106: the output is concluded exactly
    once, at 106, as on the straight line *)
Definition ex_jtx := ChainView.mkTx 7 [(1, 6)].
Definition ex_hist :=
  [C06Reorg.HC (ChainView.mkBlk 1101 101 [ex_jtx]); C06Reorg.HC (ChainView.mkBlk 1102 102 []);
   C06Reorg.HC (ChainView.mkBlk 1103 103 []);
   C06Reorg.HD (ChainView.mkBlk 1101 101 [ex_jtx]);
   C06Reorg.HC (ChainView.mkBlk 2102 102 []); C06Reorg.HC (ChainView.mkBlk 2103 103 []);
   C06Reorg.HC (ChainView.mkBlk 2104 104 []); C06Reorg.HC (ChainView.mkBlk 2105 105 []);
   C06Reorg.HC (ChainView.mkBlk 2106 106 [])].
Example C06_example_reorg_on_fork_point :
  ChainView.emitted (ChainView.run (C11.fresh 100 1100) (map C06Reorg.hop_op ex_hist)) = [ChainView.mkEm 7 1 101 106] /\
  ChainView.awaiting (ChainView.run (C11.fresh 100 1100) (map C06Reorg.hop_op ex_hist)) = [] /\
  ChainView.emitted (ChainView.run (C11.fresh 100 1100) (map ChainView.BC (rev (C06Reorg.final_stack [] ex_hist)))) =
    [ChainView.mkEm 7 1 101 106].
Proof. vm_compute. repeat split; reflexivity. Qed.

(** * [bumped_until_buried], continued (Proofs/C06Bump.v): the claim timeline of [C06_bumped_until_buried] with the
    REAL timer function ([PackageTemplate::get_height_timer], C07's Model/PackageTimer.v, for ANY set of inputs)
    and the regenerated bump rule, for EVERY estimate trajectory, while bumps stay affordable. *)

(** (a) liveness shape: a (re)broadcast happens at every timer expiry and timers are at most
    LOW_FREQUENCY_BUMP_INTERVAL apart, so over [n] blocks MORE than (n - (first timer - start)) /
    LOW_FREQUENCY_BUMP_INTERVAL attempts are made: before a deadline D blocks away (the cheater's CSV, an
    HTLC's CLTV) at least that many ever-higher bids are out *)
Theorem C06_bumped_until_buried_attempts : forall w amt dust est (inputs : list PackageTimer.pinput) csh,
  8 <= w -> 0 < dust ->
  forall c0 h0 (n : nat), 4 <= c_rate c0 -> h0 < c_timer c0 ->
  (forall k : nat, (k < n)%nat -> forall c, affordable w amt dust est c (h0 + Z.of_nat (S k))) ->
  Z.of_nat n - (c_timer c0 - h0) <
  LOW_FREQUENCY_BUMP_INTERVAL * Z.of_nat (List.length (snd (run_blocks w amt dust est (C06Bump.rtimer inputs csh) c0 h0 n))).
Proof. exact C06Bump.attempts_lower_bound. Qed.

(** (b) every attempt of the timeline satisfies the RBF rule against the previous one -- absolute fee up by
    at least the incremental relay fee for its weight, feerate strictly up (the previous feerate being the
    one STORED by the previous attempt) --, and fee plus dust limit stay within the value claimed *)
Theorem C06_bumped_until_buried_rbf : forall w amt dust est (inputs : list PackageTimer.pinput) csh,
  8 <= w -> 0 < dust ->
  forall c0 h0, 4 <= c_rate c0 -> h0 < c_timer c0 ->
  forall n : nat,
  (forall k : nat, (k < n)%nat -> forall c, affordable w amt dust est c (h0 + Z.of_nat (S k))) ->
  let '(c, log) := run_blocks w amt dust est (C06Bump.rtimer inputs csh) c0 h0 n in
  4 <= c_rate c /\
  h0 + Z.of_nat n < c_timer c <= c_timer c0 + LOW_FREQUENCY_BUMP_INTERVAL * Z.of_nat (List.length log) /\
  (forall pre h f r post, log = pre ++ (h, f, r) :: post ->
     let prev := match rev pre with [] => c_rate c0 | (_, _, r') :: _ => r' end in
     prev * w / 1000 + INCREMENTAL_RELAY_FEE_SAT_PER_1000_WEIGHT * w / 1000 <= f /\ prev < r /\ r = f * 1000 / w /\
     f + dust <= amt) /\
  (log = [] -> c_rate c = c_rate c0) /\
  (forall pre h f r, log = pre ++ [(h, f, r)] -> c_rate c = r).
Proof. exact C06Bump.run_attempts. Qed.

(** one forced bump of the regenerated [feerate_bump], any estimate *)
Theorem C06_force_bump_rbf : forall w amt dust p sweep f r,
  0 < w -> 4 <= p ->
  feerate_bump w amt dust p FeerateStrategy_ForceBump sweep = Some (f, r) ->
  p * w / 1000 + INCREMENTAL_RELAY_FEE_SAT_PER_1000_WEIGHT * w / 1000 <= f /\
  r = f * 1000 / w /\
  (0 < dust -> f + dust <= amt).
Proof. exact C06Bump.force_bump_rbf. Qed.

(** what does NOT hold (finding C06-F1): "a claim never pays more than 80 % of its value in fees". Estimate
    flat at the floor, timer firing every block: after 34 blocks the 1000-weight claim on 1 000 000 sat
    pays 816 593 sat, and in the next 30 blocks nothing is re-issued at all (no further bump fits) *)
Theorem C06_fee_burn_bound_refuted :
  exists n : nat,
    let '(c, log) := run_blocks 1000 1000000 546 (fun _ => 253) (fun h => h + 1) (mkClaim 253 253 101 100) 100 n in
    let '(c', log') := run_blocks 1000 1000000 546 (fun _ => 253) (fun h => h + 1) (mkClaim 253 253 101 100) 100 (n + 30) in
    8 * 1000000 <= 10 * c_fee c /\ c_fee c + 546 <= 1000000 /\ log' = log.
Proof. exact C06Bump.burn_bound_witness. Qed.

(** (c) a request is dropped only when the entry of its confirmed claim (or of the conflicting spend) in
    the awaiting-threshold-confirmation table matures: for ANY operation list on the table model
    (connections, disconnections, re-deliveries) every conclusion about a transaction confirmed at [c] is
    drawn at a best height of at least c + ANTI_REORG_DELAY - 1; by [C06_reorg_history_is_straight_line]
    the conclusions are those of the final chain *)
Theorem C06_request_dropped_only_when_buried : forall h0 hash0 ops,
  Forall C11.op_ok ops ->
  forall m, In m (ChainView.emitted (ChainView.run (C11.fresh h0 hash0) ops)) ->
  ChainView.m_conf m + ANTI_REORG_DELAY - 1 <= ChainView.m_at m.
Proof. exact C06Bump.dropped_only_when_buried. Qed.

(** non-vacuity of (a)/(b): a justice claim on a revoked to_local output the cheater can spend from height
    1000 on (far away: [get_height_timer] fires every LOW_FREQUENCY_BUMP_INTERVAL = 15 blocks; with that height
    in the past it fires every block, which is the setting of [C06_fee_burn_bound_refuted]), estimate doubling
    at height 130: 4 attempts in 60 blocks, each above the previous by at least the relay increment *)
Example C06_example_attempts :
  snd (run_blocks 1000 1000000 546 (fun h => if h <? 130 then 253 else 506)
         (C06Bump.rtimer [PackageTimer.RevokedOutput] 1000) (mkClaim 253 253 101 100) 100 60) =
  [(101, 506, 506); (116, 759, 759); (131, 1012, 1012); (146, 1265, 1265)].
Proof. vm_compute. reflexivity. Qed.
