(** C06 -- Any revoked commitment the counterparty confirms is fully punished.
    Only theorem statements closed by [exact]; proofs in Proofs/C06Justice.v (and
    Proofs/C05Shachain.v for the secret store); model in Model/Justice.v. *)
Require Import LdkV.Prim.U64 LdkV.Model.Shachain LdkV.Model.Justice LdkV.Proofs.C06Justice
  LdkV.Crypto.Sha256.
Open Scope Z_scope.

(** For EVERY hash function, seed, assignment of commitments (any HTLC lists, dust or not, both
    directions, any sources; txids distinct) and number [n <= 2^48] of completed update rounds: the
    monitor accepts the whole history, and for EVERY revoked commitment [j < n] -- not just the
    latest -- it can still produce the revocation secret and still holds the HTLC list with its
    output indices (only the sources were pruned). *)
Theorem C06_memory_suffices : forall (H : bytes -> bytes) seed (commit : nat -> ccommit),
  (forall i j : nat, cc_txid (commit i) = cc_txid (commit j) -> i = j) ->
  forall n : nat, Z.of_nat n <= 2 ^ 48 ->
  exists m, apply_all H mon_init (history H seed commit n) = Some m /\
    get_min_seen_secret (m_secrets m) = 2 ^ 48 - Z.of_nat n /\
    forall j : nat, (j < n)%nat ->
      get_secret H (m_secrets m) (FIRSTN - Z.of_nat j) = Some (build_commitment_secret H seed (FIRSTN - Z.of_nat j)) /\
      claimable_get (m_claimable m) (cc_txid (commit j)) = Some (map drop_src (cc_htlcs (commit j))).
Proof. exact memory_suffices. Qed.

(** When the transaction of ANY revoked commitment [j] of such a history confirms, the monitor
    asks to claim exactly: every output carrying the revokeable script of that number (the
    cheater's balance), then every HTLC output, both directions, in the order of the stored list. *)
Theorem C06_all_outputs_claimed : forall (H : bytes -> bytes) seed (commit : nat -> ccommit),
  (forall i j : nat, cc_txid (commit i) = cc_txid (commit j) -> i = j) ->
  forall (n j : nat) (tx : ctx), Z.of_nat n <= 2 ^ 48 -> (j < n)%nat ->
  t_txid tx = cc_txid (commit j) -> t_number tx = FIRSTN - Z.of_nat j ->
  htlcs_match (t_outs tx) (cc_htlcs (commit j)) ->
  exists m, apply_all H mon_init (history H seed commit n) = Some m /\
    justice H m tx = revokeable_outs (t_txid tx) (t_number tx) 0 (t_outs tx)
                     ++ map (pair (t_txid tx)) (htlc_idxs (cc_htlcs (commit j))).
Proof. exact all_outputs_claimed. Qed.

(** the revokeable part is exactly the outputs whose script is the revokeable script of that number *)
Theorem C06_revokeable_outputs_exact : forall txid k outs i0 op,
  In op (revokeable_outs txid k i0 outs) <->
  exists j : nat, (j < List.length outs)%nat /\ op = (txid, i0 + Z.of_nat j) /\
                  o_kind (nth j outs (mkOut OOtherScript (-1))) = ORevokeable k.
Proof. exact revokeable_outs_spec. Qed.

(** nothing is claimed twice *)
Theorem C06_no_duplicate_claims : forall txid k outs hs,
  NoDup (htlc_idxs hs) ->
  (forall i, In i (htlc_idxs hs) -> 0 <= i /\ o_kind (nth (Z.to_nat i) outs (mkOut OOtherScript (-1))) = OOtherScript) ->
  NoDup (revokeable_outs txid k 0 outs ++ map (pair txid) (htlc_idxs hs)).
Proof. exact claims_nodup. Qed.

(** For every subset [S] of the revoked commitment's outputs that the cheater spends first with its
    own HTLC transactions [(htxid, v)] (one input, five witness elements): the tracked claims become
    (claims minus S) plus output 0 of each of those transactions. *)
Theorem C06_second_stage : forall (H : bytes -> bytes) m k ctxid sec,
  get_secret H (m_secrets m) k = Some sec ->
  forall (S : list (Z * Z)) claims,
  (forall hv, In hv S -> fst hv <> ctxid) ->
  fold_left (fun cl (hv : Z * Z) => track H m k ctxid cl (mkStx (fst hv) [(ctxid, snd hv, 5)] 1)) S claims =
  filter (fun op => negb (in_S ctxid S op)) claims ++ map (fun hv : Z * Z => (fst hv, 0)) S.
Proof. exact track_subset. Qed.

(** transactions that touch neither a tracked outpoint nor the revoked commitment change nothing *)
Theorem C06_unrelated_tx_ignored : forall (H : bytes -> bytes) m k ctxid claims tx,
  (forall op, In op claims -> spends tx op = false) ->
  (forall inp, In inp (s_ins tx) -> fst (fst inp) <> ctxid) ->
  track H m k ctxid claims tx = claims.
Proof. exact track_unrelated. Qed.

(** ** Non-vacuity: a concrete history with SHA-256: four update rounds, the commitment of round 1
    (three updates old) has a dust HTLC, an offered and a received non-dust HTLC; its transaction
    confirms; the claim set is the revokeable output and both HTLC outputs. *)
Definition ex_commit (j : nat) : ccommit :=
  mkCC (FIRSTN - Z.of_nat j) (1000 + Z.of_nat j)
       (if Nat.eqb j 1 then [mkHtlc true 5000000 (Some 2) (Some 7); mkHtlc false 100000 None (Some 8);
                              mkHtlc false 7000000 (Some 1) None]
        else []).
Example C06_example_claims :
  match apply_all sha256 mon_init (history sha256 (repeat 5 32) ex_commit 4) with
  | Some m => justice sha256 m (mkCtx 1001 (FIRSTN - 1)
                 [mkOut OOtherScript 300000; mkOut OOtherScript 7000; mkOut OOtherScript 5000;
                  mkOut (ORevokeable (FIRSTN - 1)) 600000])
  | None => []
  end = [(1001, 3); (1001, 2); (1001, 1)].
Proof. vm_compute. reflexivity. Qed.
