(** C03 — Every outbound payment reaches a truthful terminal outcome.
    Statements only (closed by [exact]); proofs are in Proofs/C03.v and Proofs/C03b.v; the model is
    Model/Outbound.v. [trace ops] is the concatenated output stream of running the operation list
    [ops] (ANY list, any interleaving of payment ids) from the empty [OutboundPayments]. *)
Require Import LdkV.Prim.U64 LdkV.Gen.ConstsC03 LdkV.Model.Outbound LdkV.Proofs.C03 LdkV.Proofs.C03b LdkV.Proofs.C03c LdkV.Proofs.C03d.
Open Scope Z_scope.

(** The per-id scanner accepts every run: no creation while an entry is present; no terminal event,
    claim hit or removal while none is present; at most one terminal event per entry lifetime; no
    PaymentFailed after a claim hit the entry. *)
Theorem C03_lifetime_scan : forall ops id, scan_list id (Some scan0) (trace ops) <> None.
Proof. exact lifetime_scan. Qed.

(** Between any two terminal events (PaymentSent | PaymentFailed) of a payment id the entry was
    re-created: at most one terminal event per lifetime of the entry. *)
Theorem C03_terminal_unique : forall ops id a t1 b t2 c,
  trace ops = a ++ t1 :: b ++ t2 :: c ->
  is_terminal id t1 = true -> is_terminal id t2 = true -> existsb (is_created id) b = true.
Proof. exact terminal_unique. Qed.

(** Never both, in either order. *)
Theorem C03_not_contradicted : forall ops id a t1 b t2 c,
  trace ops = a ++ t1 :: b ++ t2 :: c ->
  (is_sent id t1 = true /\ is_failed id t2 = true) \/ (is_failed id t1 = true /\ is_sent id t2 = true) ->
  existsb (is_created id) b = true.
Proof. exact not_contradicted. Qed.

(** A terminal event is only ever emitted for an id for which an entry was created before. *)
Theorem C03_terminal_needs_payment : forall ops id a t c,
  trace ops = a ++ t :: c -> is_terminal id t = true -> existsb (is_created id) a = true.
Proof. exact terminal_needs_creation. Qed.

(** PaymentSent is emitted only by claim_htlc, for the id the claimed HTLC belongs to, with the
    preimage the claim carried, when the entry was not yet Fulfilled; amount and fee are the
    entry's total_msat and pending fee; afterwards the entry is Fulfilled. For ANY state. *)
Theorem C03_sent_truth : forall st o id pre amt fee,
  In (OEv (EvSent id pre amt fee)) (snd (step st o)) ->
  exists sp oc h p,
    o = OpClaim sp pre oc /\ get sp (htl st) = Some h /\ h_id h = id /\
    get id (pm st) = Some p /\ is_fulfilled p = false /\
    amt = total_msat p /\ fee = get_pending_fee p /\
    exists p', get id (pm (fst (step st o))) = Some p' /\ is_fulfilled p' = true.
Proof. exact sent_truth. Qed.

(** PaymentFailed implies that no claim hit the entry in this lifetime. *)
Theorem C03_failed_means_untouched : forall ops id a h b f c,
  trace ops = a ++ h :: b ++ f :: c ->
  is_claimhit id h = true -> is_failed id f = true -> existsb (is_created id) b = true.
Proof. exact failed_means_untouched. Qed.

(** A drained entry (no HTLC left), in ANY state, is Fulfilled, or pre-HTLC, or the next
    check_retry_payments without a route reports PaymentFailed and removes it — unless the entry's
    own accounting says the full amount is still in flight ([_partial]: that the accounting
    equals the sum over the pending HTLCs, which excludes this case for reachable states, is
    validated by the correspondence check only). *)
Theorem C03_terminal_when_drained_partial : forall st id p,
  get id (pm st) = Some p -> parts_of p = [] ->
  is_fulfilled p = true \/ is_awaiting p = true \/
  (exists r a hp h pa pf tot rf, p = Retryable r a hp [] h pa pf tot rf /\
      is_auto_retryable_now p = true /\ tot <= pa) \/
  (get id (pm (fst (step st (OpCheckRetry [])))) = None /\
   exists h r, In (OEv (EvFailed id h r)) (snd (step st (OpCheckRetry [])))).
Proof. exact drained_terminates_any_state. Qed.

(** A second send (add_new_pending_payment, add_new_awaiting_invoice, send_payment with a route)
    with a payment id that is present is refused with DuplicatePayment and changes nothing. *)
Theorem C03_duplicate_refused : forall st id p,
  get id (pm st) = Some p ->
  (forall hash retry paths mf,
      same_state (fst (step st (OpAdd id hash retry paths mf))) st /\
      snd (step st (OpAdd id hash retry paths mf)) = [ORes 1]) /\
  (forall ticks retry,
      same_state (fst (step st (OpAwait id ticks retry))) st /\
      snd (step st (OpAwait id ticks retry)) = [ORes 1]) /\
  (forall hash retry amt mf k fees over res rest,
      same_state (fst (step st (OpSend id hash retry amt mf (ARoute k fees over res :: rest)))) st /\
      snd (step st (OpSend id hash retry amt mf (ARoute k fees over res :: rest))) = [ORes 1]).
Proof. exact duplicate_refused. Qed.

(** The map's domain is a function of the output stream: an id is present iff it was created and
    neither PaymentFailed nor a silent removal followed ... *)
Theorem C03_dom_tracks_trace : forall ops id,
  exists s', scan_list id (Some scan0) (trace ops) = Some s' /\
             (sc_present s' = true <-> get id (pm (fst (run init ops))) <> None).
Proof. exact dom_tracks_trace. Qed.

(** ... a silent removal is either the idempotency timeout (entry Fulfilled, no HTLC left, no
    related event pending, at least IDEMPOTENCY_TIMEOUT_TICKS idle ticks counted) or the
    resolution of a probe ... *)
Theorem C03_removal_only_by_failure_or_timeout : forall st o id w,
  In (OGone id w) (snd (step st o)) ->
  (w = 0 /\ o = OpTick /\
   exists h t tot f, get id (pm st) = Some (Fulfilled [] h t tot f) /\ IDEMPOTENCY_TIMEOUT_TICKS <= t /\
                     existsb (ev_related id) (evq st) = false) \/
  (w = 1 /\ exists sp perm, o = OpFail sp perm true).
Proof. exact gone_semantics. Qed.

(** ... and an id is created again only after it was removed. *)
Theorem C03_recreation_needs_removal : forall ops id a c1 b c2 c,
  trace ops = a ++ c1 :: b ++ c2 :: c ->
  is_created id c1 = true -> is_created id c2 = true -> existsb (is_removal id) b = true.
Proof. exact recreation_needs_removal. Qed.

(** Restart. From ANY state in which [id] is Fulfilled (any persisted snapshot taken after its
    PaymentSent), whatever follows — insert_from_monitor_on_startup, fails, abandons, retries —
    no terminal event for [id] is emitted before the entry was removed (idempotency timeout) and
    created again. *)
Theorem C03_restart_monotone : forall st id p ops,
  get id (pm st) = Some p -> is_fulfilled p = true ->
  (forall a t c, List.concat (snd (run st ops)) = a ++ t :: c -> is_terminal id t = true ->
                 existsb (is_created id) a = true) /\
  (forall a t c, List.concat (snd (run st ops)) = a ++ t :: c -> is_created id t = true ->
                 existsb (is_removal id) a = true).
Proof. exact fulfilled_snapshot_stays. Qed.

(** Restart, from ANY state (e.g. a snapshot from before the PaymentSent, whose event was lost):
    once a claim hits the entry again, no PaymentFailed follows. *)
Theorem C03_restart_claim_wins : forall st id ops a h b f c,
  List.concat (snd (run st ops)) = a ++ h :: b ++ f :: c ->
  is_claimhit id h = true -> is_failed id f = true -> existsb (is_created id) b = true.
Proof. exact pending_snapshot_claim_wins. Qed.

(** A path whose send returned Ok or MonitorUpdateInProgress (the HTLC is committed, it goes out
    when the monitor update completes) keeps its part: every session priv that
    find_route_and_send_payment / send_payment hands out for such a path is a pending part of the
    payment when the call returns, through every nested retry of the paths that failed to send
    (the three Rust sites — pay_route_internal's classification, push_path_failed_evs_and_scids,
    handle_pay_route_err's filter — agree that MonitorUpdateInProgress is "in flight"). *)
Theorem C03_inflight_kept : forall id answers e c fv mf sp i0 h0 a f r,
  In (ONew sp i0 h0 a f r) (snd (fst (frs answers id e c fv mf))) -> unsent r = false ->
  exists p', fst (fst (frs answers id e c fv mf)) = Some p' /\ In sp (parts_of p').
Proof. exact frs_inflight_kept. Qed.

Theorem C03_inflight_kept_first_attempt : forall id hash retry amt mf answers c sp i0 h0 a f r,
  In (ONew sp i0 h0 a f r) (snd (send_t id hash retry amt mf answers c None)) -> unsent r = false ->
  exists p', fst (send_t id hash retry amt mf answers c None) = Some p' /\ In sp (parts_of p').
Proof. exact send_inflight_kept. Qed.

(** No PaymentFailed while a part is pending: abandon_payment, the retain pass and the retry loop
    of check_retry_payments (whatever the router answers) and the timer tick never emit
    PaymentFailed for an entry that has a pending part, and fail_htlc only when the part it fails
    is the last one. *)
Theorem C03_no_failed_while_part_pending : forall id p y c,
  In y (parts_of p) ->
  (forall reason, has_failed (snd (abandon_t id reason c (Some p))) = false) /\
  has_failed (snd (retain_t id c (Some p))) = false /\
  (forall q, has_failed (snd (tick_t q id c (Some p))) = false) /\
  (forall answers, y < c -> has_failed (snd (retry_t answers id c (Some p))) = false) /\
  (forall sp amt fee perm probe, sp <> y -> has_failed (snd (fail_t id sp amt fee perm probe c (Some p))) = false).
Proof. exact no_failed_while_pending. Qed.

(** The fee a PaymentSent reports is the fee actually committed: for every function F from session privs
    to fees with which the run is consistent (no session priv is handed out twice with different fees
    — an assumption about the entropy source; fees are not negative), for ALL operation lists, a
    PaymentSent reports no fee or exactly the sum of the fees of the parts that are pending in the
    entry at the moment of the claim. This covers a payment that was abandoned before (a part that
    failed after the abandonment no longer counts) and whatever restarts re-insert (a session priv
    that is already tracked is not counted again). The first statement is for ANY state satisfying
    the per-entry invariant "pending fee = sum of the fees of the pending parts". *)
Theorem C03_sent_fee_truth_any_state : forall (F : Z -> Z) s o id pre amt fee,
  (forall sp, 0 <= F sp) -> feeinv F s ->
  In (OEv (EvSent id pre amt fee)) (snd (step s o)) ->
  exists p, get id (pm s) = Some p /\ is_fulfilled p = false /\
            forall x, fee = Some x -> x = sumf F (parts_of p).
Proof. exact sent_fee_truth_any_state. Qed.

Theorem C03_sent_fee_truth : forall (F : Z -> Z) ops o id pre amt fee,
  (forall sp, 0 <= F sp) ->
  Forall (consistent F) (snd (run init ops)) ->
  In (OEv (EvSent id pre amt fee)) (snd (step (fst (run init ops)) o)) ->
  exists p, get id (pm (fst (run init ops))) = Some p /\ is_fulfilled p = false /\
            forall x, fee = Some x -> x = sumf F (parts_of p).
Proof. exact sent_fee_truth. Qed.

(** ... and the invariant is kept by every operation whose own allocations are consistent with F *)
Theorem C03_fee_invariant : forall (F : Z -> Z) s o,
  (forall sp, 0 <= F sp) -> feeinv F s -> consistent F (snd (step s o)) -> feeinv F (fst (step s o)).
Proof. exact fee_invariant. Qed.

(** Which operation can emit which kind of output (PaymentSent only from a claim, PaymentFailed
    only from send/retry/fail/abandon/tick, creation only from add/await/send/startup, ...). *)
Theorem C03_output_kinds : forall st o, kinds_in (op_kinds o) (snd (step st o)) = true.
Proof. exact step_kinds. Qed.

(** * Non-vacuity: concrete runs reach PaymentSent, PaymentFailed, the idempotency timeout and a
    re-used payment id. *)
Example C03_ex_sent_then_reuse_failed :
  trace [OpAdd 5 1 (Some 3) [(1000, 10); (2000, 0)] None; OpClaim 1 1 false; OpClaim 2 1 false;
         OpFinalize [1; 2]; OpHandle 9%nat; OpTick; OpTick; OpTick; OpTick; OpTick; OpTick; OpTick; OpTick;
         OpAdd 5 2 (Some 0) [(700, 0)] None; OpFail 3 false false] =
  [OCreated 5; ORes 0; ONew 1 5 1 1000 10 SOk; ONew 2 5 1 2000 0 SOk;
   OEv (EvSent 5 1 (Some 3000) (Some 10)); OClaimHit 5; OClaimHit 5;
   OEv (EvPathOk 5 1); OEv (EvPathOk 5 2); OGone 5 0;
   OCreated 5; ORes 0; ONew 3 5 2 700 0 SOk;
   OEv (EvPathFailed 5 3 false false); OEv (EvFailed 5 (Some 2) (Some R_RetriesExhausted))].
Proof. vm_compute. reflexivity. Qed.

Example C03_ex_send_retry_failed :
  trace [OpSend 6 3 2 50000 None [ARoute 2 [10; 0] 0 [SUnavail; SOk]; ANoRoute]; OpFail 2 true false] =
  [OCreated 6; ORes 0; ONew 1 6 3 25000 10 SUnavail; ONew 2 6 3 25000 0 SOk;
   OEv (EvPathFailed 6 1 false true);
   OEv (EvPathFailed 6 2 true false); OEv (EvFailed 6 (Some 3) (Some R_RouteNotFound))].
Proof. vm_compute. reflexivity. Qed.

Example C03_ex_drained_retryable :
  let st := fst (run init [OpAdd 7 1 (Some 3) [(1000, 0)] None; OpFail 1 false false]) in
  get 7 (pm st) = Some (Retryable (Some 3) 0 true [] 1 0 (Some 0) 1000 None) /\
  snd (step st (OpCheckRetry [])) = [OEv (EvFailed 7 (Some 1) (Some R_RouteNotFound))].
Proof. vm_compute. split; reflexivity. Qed.

(** a payment is abandoned with two parts in flight (fees 1 and 406), the 406 part fails, the other
    is claimed: PaymentSent reports the 1 msat that was paid *)
Example C03_ex_abandoned_then_claimed :
  map (fun outs => flat_map (fun o => match o with OEv e => [e] | _ => [] end) outs)
      (snd (run init [OpSend 4 10 0 242858 None [ARoute 3 [2256; 1; 406] 0 [SUnavail; SOk; SOk]];
                      OpFail 3 true false; OpClaim 2 10 false])) =
  [[EvPathFailed 4 1 false true]; [EvPathFailed 4 3 true false]; [EvSent 4 10 (Some 242858) (Some 1)]].
Proof. vm_compute. reflexivity. Qed.

(** three restarts re-report a tracked HTLC: its fee is counted once *)
Example C03_ex_reinserted_on_startup :
  map (fun outs => flat_map (fun o => match o with OEv e => [e] | _ => [] end) outs)
      (snd (run init [OpSend 1 11 2 1000000 None [ARoute 1 [1000] 0 [SOk]];
                      OpStartup 1; OpStartup 1; OpStartup 1; OpClaim 1 11 true])) =
  [[]; []; []; []; [EvSent 1 11 (Some 1000000) (Some 1000); EvPathOk 1 1]].
Proof. vm_compute. reflexivity. Qed.
