(** [SocketAddress] / [Hostname] descriptors (ln/msgs.rs, util/ser.rs): the codec of ONE address
    descriptor as read by [impl Readable for Result<SocketAddress, u8>] and written by
    [impl Writeable for SocketAddress].  The length arithmetic [SocketAddress::len] is NOT modelled
    by hand: it is [Gen/WireLens.v] (rs2v, regenerated every run); [sa_abs] maps a value to the
    argument of the generated function.  Definitions only. *)
Require Import LdkV.Prim.U64 LdkV.Codec.Combinators LdkV.Gen.WireLens.
Open Scope Z_scope.

Inductive saddr : Type :=
| SA_V4 (addr : bytes) (port : Z)
| SA_V6 (addr : bytes) (port : Z)
| SA_OnionV2 (b : bytes)
| SA_OnionV3 (pk : bytes) (checksum version port : Z)
| SA_Host (name : bytes) (port : Z).

(** [Hostname::str_is_valid_hostname]: ASCII alphanumerics, '.', '_', '-' (a non-ASCII byte fails
    either [String::from_utf8] or this test; both give [InvalidValue]). *)
Definition host_char_ok (c : Z) : bool :=
  in_rng 48 57 c || in_rng 65 90 c || in_rng 97 122 c || (c =? 46) || (c =? 95) || (c =? 45).

Definition sa_enc (a : saddr) : bytes :=
  match a with
  | SA_V4 addr port => 1 :: addr ++ be_enc 2 port
  | SA_V6 addr port => 2 :: addr ++ be_enc 2 port
  | SA_OnionV2 b => 3 :: b
  | SA_OnionV3 pk c v port => 4 :: pk ++ be_enc 2 c ++ be_enc 1 v ++ be_enc 2 port
  | SA_Host name port => 5 :: be_enc 1 (len name) ++ name ++ be_enc 2 port
  end.

(** [inl a]: a known descriptor; [inr t]: unknown descriptor type [t] (only the type byte is consumed) *)
Definition sa_dec (b : bytes) : rres ((saddr + Z) * bytes) :=
  dop (t, r) <- read_u 1 b;
  if t =? 1 then dop (addr, r1) <- read_n 4 r; dop (port, r2) <- read_u 2 r1; ROk (inl (SA_V4 addr port), r2)
  else if t =? 2 then dop (addr, r1) <- read_n 16 r; dop (port, r2) <- read_u 2 r1; ROk (inl (SA_V6 addr port), r2)
  else if t =? 3 then dop (x, r1) <- read_n 12 r; ROk (inl (SA_OnionV2 x), r1)
  else if t =? 4 then
    dop (pk, r1) <- read_n 32 r; dop (c, r2) <- read_u 2 r1; dop (v, r3) <- read_u 1 r2; dop (port, r4) <- read_u 2 r3;
    ROk (inl (SA_OnionV3 pk c v port), r4)
  else if t =? 5 then
    dop (n, r1) <- read_u 1 r; dop (name, r2) <- read_n n r1;
    if forallb host_char_ok name then dop (port, r3) <- read_u 2 r2; ROk (inl (SA_Host name port), r3)
    else RErr "InvalidValue"
  else ROk (inr t, r).

Definition u16_ok (z : Z) : bool := (0 <=? z) && (z <? 65536).
Definition sa_dom (a : saddr) : bool :=
  match a with
  | SA_V4 addr port => (len addr =? 4) && u16_ok port
  | SA_V6 addr port => (len addr =? 16) && u16_ok port
  | SA_OnionV2 b => len b =? 12
  | SA_OnionV3 pk c v port => (len pk =? 32) && u16_ok c && ((0 <=? v) && (v <? 256)) && u16_ok port
  | SA_Host name port => (len name <=? 255) && forallb host_char_ok name && u16_ok port
  end.

(** the argument of the generated [socket_address_len] *)
Definition sa_abs (a : saddr) : SocketAddress :=
  match a with
  | SA_V4 _ p => SocketAddress_TcpIpV4 p
  | SA_V6 _ p => SocketAddress_TcpIpV6 p
  | SA_OnionV2 _ => SocketAddress_OnionV2
  | SA_OnionV3 _ _ _ p => SocketAddress_OnionV3 p
  | SA_Host name p => SocketAddress_Hostname (len name) p
  end.
