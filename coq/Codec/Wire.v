(** Message-level codec over a schema: fixed fields, then a tail (TLV stream / rest bytes / nothing).
    The write side and the read side of a codec are kept SEPARATELY (they are separate code in the
    hand-written impls); [schema_wf] demands that they agree.  Definitions only. *)
Require Import LdkV.Prim.U64 LdkV.Codec.Combinators LdkV.Codec.Tlv.
Open Scope Z_scope.

Inductive tail : Type :=
| TTlv (es : list entry)   (* decode_tlv_stream! until the end of the message *)
| TRest                    (* read_to_end into an excess_data field *)
| TNone.                   (* nothing more is read; trailing bytes stay unread *)

Record side : Type := mk_side { sd_fixed : list (string * fc); sd_tail : tail; sd_tlv_names : list string }.
Record schema : Type := mk_schema { s_name : string; s_type : Z; s_write : side; s_read : side }.

(** A message value: fixed field values, TLV values (one per entry, [None] = absent), rest bytes. *)
Record mval : Type := mk_mval { m_fixed : list fv; m_tlvs : list (option fv); m_rest : bytes }.

Section WithOracle.
Variable pk_valid : bytes -> bool.

Fixpoint fields_enc (cs : list fc) (vs : list fv) : bytes :=
  match cs, vs with
  | c :: cs', v :: vs' => fenc c v ++ fields_enc cs' vs'
  | _, _ => []
  end.
Fixpoint fields_dec (cs : list fc) (b : bytes) : rres (list fv * bytes) :=
  match cs with
  | [] => ROk ([], b)
  | c :: cs' => dop (v, r) <- fdec pk_valid c b; dop (vs, r') <- fields_dec cs' r; ROk (v :: vs, r')
  end.
Fixpoint fields_dom (cs : list fc) (vs : list fv) : bool :=
  match cs, vs with
  | [], [] => true
  | c :: cs', v :: vs' => fdom pk_valid c v && fields_dom cs' vs'
  | _, _ => false
  end.

Definition tail_enc (t : tail) (m : mval) : bytes :=
  match t with TTlv es => tlv_enc es (m_tlvs m) | TRest => m_rest m | TNone => [] end.

Definition side_enc (sd : side) (m : mval) : bytes :=
  fields_enc (map snd (sd_fixed sd)) (m_fixed m) ++ tail_enc (sd_tail sd) m.

(** returns the value and the UNREAD remainder (non-empty only for [TNone]) *)
Definition side_dec (sd : side) (b : bytes) : rres (mval * bytes) :=
  dop (fx, r) <- fields_dec (map snd (sd_fixed sd)) b;
  match sd_tail sd with
  | TTlv es => dop tl <- tlv_dec pk_valid es r; ROk (mk_mval fx tl [], [])
  | TRest => ROk (mk_mval fx [] r, [])
  | TNone => ROk (mk_mval fx [] [], r)
  end.

Definition msg_enc (s : schema) (m : mval) : bytes := side_enc (s_write s) m.
Definition msg_dec (s : schema) (b : bytes) : rres (mval * bytes) := side_dec (s_read s) b.

Definition tail_dom (t : tail) (m : mval) : bool :=
  match t with
  | TTlv es => tlv_dom pk_valid es (m_tlvs m) && match m_rest m with [] => true | _ => false end
  | TRest => match m_tlvs m with [] => true | _ => false end
  | TNone => match m_tlvs m, m_rest m with [], [] => true | _, _ => false end
  end.
Definition msg_dom (s : schema) (m : mval) : bool :=
  fields_dom (map snd (sd_fixed (s_write s))) (m_fixed m) && tail_dom (sd_tail (s_write s)) m.

(** wire frame: 2-byte big-endian type, then the payload *)
Definition frame_enc (s : schema) (m : mval) : bytes := be_enc 2 (s_type s) ++ msg_enc s m.

End WithOracle.

(** ---------------------------------------------------------------- boolean equality of schema parts *)
Definition bc_eqb (a b : bc) : bool :=
  match a, b with
  | BU n, BU m => Nat.eqb n m | BBool, BBool => true | BAcct, BAcct => true
  | BBytes n, BBytes m => n =? m | BPk, BPk => true | BSig, BSig => true | BVarCL, BVarCL => true
  | BVar16, BVar16 => true | BUtf8, BUtf8 => true | BOnion, BOnion => true | BBig, BBig => true
  | BOmPacket, BOmPacket => true
  | _, _ => false
  end.
Fixpoint list_eqb {A} (eqb : A -> A -> bool) (l1 l2 : list A) : bool :=
  match l1, l2 with
  | [], [] => true
  | a :: l1', b :: l2' => eqb a b && list_eqb eqb l1' l2'
  | _, _ => false
  end.
Definition fc_eqb (a b : fc) : bool :=
  match a, b with
  | FB c, FB d => bc_eqb c d | FSeq l, FSeq m => list_eqb bc_eqb l m | FVecCL c, FVecCL d => bc_eqb c d
  | FRest, FRest => true | FRestVec c, FRestVec d => bc_eqb c d | FOpaque, FOpaque => true
  | _, _ => false
  end.
Definition bv_eqb (a b : bv) : bool :=
  match a, b with VZ x, VZ y => x =? y | VB x, VB y => list_eqb Z.eqb x y | _, _ => false end.
Definition kind_eqb (a b : kind) : bool :=
  match a, b with
  | KReq, KReq => true | KOpt, KOpt => true | KOptVec, KOptVec => true
  | KDefault x, KDefault y => list_eqb bv_eqb x y | _, _ => false
  end.
Definition entry_eqb (a b : entry) : bool :=
  (e_ty a =? e_ty b) && kind_eqb (e_kind a) (e_kind b) && fc_eqb (e_fc a) (e_fc b).
Definition tail_eqb (a b : tail) : bool :=
  match a, b with
  | TTlv x, TTlv y => list_eqb entry_eqb x y | TRest, TRest => true | TNone, TNone => true
  | _, _ => false
  end.
Definition named_fc_eqb (a b : string * fc) : bool := String.eqb (fst a) (fst b) && fc_eqb (snd a) (snd b).

(** [schema_wf]: the write side and the read side describe the same format (same fields by name and
    codec in the same order, same TLV numbers, kinds, codecs and names); every fixed field is
    self-delimiting; TLV types are strictly ascending and below 2^64; vector elements are non-empty;
    the message type fits u16. *)
Definition tail_wf (t : tail) : bool :=
  match t with TTlv es => tlvs_wf es | _ => true end.
Definition schema_wf (s : schema) : bool :=
  list_eqb named_fc_eqb (sd_fixed (s_write s)) (sd_fixed (s_read s))
  && tail_eqb (sd_tail (s_write s)) (sd_tail (s_read s))
  && list_eqb String.eqb (sd_tlv_names (s_write s)) (sd_tlv_names (s_read s))
  && forallb (fun nf => fc_prefix (snd nf)) (sd_fixed (s_write s))
  && tail_wf (sd_tail (s_write s))
  && (0 <=? s_type s) && (s_type s <? 65536).

(** ---------------------------------------------------------------- wire::read dispatch *)
Inductive wmsg : Type := WKnown (s : schema) (m : mval) | WUnknown (ty : Z).
Fixpoint find_schema (tbl : list schema) (ty : Z) : option schema :=
  match tbl with [] => None | s :: tbl' => if s_type s =? ty then Some s else find_schema tbl' ty end.
(** [wire::read]: 2-byte type, dispatch on the type table, [Message::Unknown] for anything else
    (the payload is then not looked at). *)
Definition wire_dec (pk_valid : bytes -> bool) (tbl : list schema) (b : bytes) : rres wmsg :=
  dop (ty, r) <- read_u 2 b;
  match find_schema tbl ty with
  | Some s => dop (m, _) <- msg_dec pk_valid s r; ROk (WKnown s m)
  | None => ROk (WUnknown ty)
  end.
Fixpoint types_distinct (seen : list Z) (tbl : list schema) : bool :=
  match tbl with
  | [] => true
  | s :: tbl' => negb (existsb (Z.eqb (s_type s)) seen) && types_distinct (s_type s :: seen) tbl'
  end.
