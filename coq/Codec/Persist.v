(** Version prefix of persisted top-level objects: [write_ver_prefix!] / [read_ver_prefix!]
    (util/ser_macros.rs): two bytes (version written, minimum version able to read it); the reader of
    version [supported] rejects [min_version > supported] with [UnknownVersion].  Definitions only. *)
Require Import LdkV.Prim.U64 LdkV.Codec.Combinators LdkV.Codec.Tlv.
Open Scope Z_scope.

Definition ver_enc (ver min_ver : Z) : bytes := [ver; min_ver].
Definition ver_dec (supported : Z) (b : bytes) : rres (Z * bytes) :=
  dop (ver, r) <- read_u 1 b;
  dop (min_ver, r') <- read_u 1 r;
  if supported <? min_ver then RErr "UnknownVersion" else ROk (ver, r').

(** A persisted object of the simple class: version prefix, then a prefix of self-delimiting base fields
    (fixed-width integers, bools, fixed arrays, keys, length-prefixed byte strings) written back to back,
    then the length-prefixed TLV suffix ([write_ver_prefix!]; field [write]s; [write_tlv_fields!]). *)
Definition obj_enc (ver min_ver : Z) (l : list bc) (es : list entry) (vs : list bv) (vals : list (option fv)) : bytes :=
  ver_enc ver min_ver ++ seq_enc l vs ++ suffix_enc es vals.
Definition obj_dec (pk_valid : bytes -> bool) (supported : Z) (l : list bc) (es : list entry) (b : bytes)
  : rres (Z * list bv * list (option fv) * bytes) :=
  dop (ver, r) <- ver_dec supported b;
  dop (vs, r1) <- seq_dec pk_valid l r;
  dop (vals, r2) <- suffix_dec pk_valid es r1;
  ROk (ver, vs, vals, r2).
