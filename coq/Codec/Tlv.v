(** TLV streams: a transliteration of [_decode_tlv_stream_range!] / [_encode_tlv_stream!]
    (lightning/src/util/ser_macros.rs) over a schema (list of (type, kind, field codec)).
    Shared by C13 (peer messages) and C12 (persistence).  Definitions only. *)
Require Import LdkV.Prim.U64 LdkV.Codec.Combinators.
Open Scope Z_scope.

(** The field kinds of the serialization macros that this development models.
    [KReq]: required / (required: …) / required_vec-with-encoding.
    [KOpt]: option / (option, encoding: …) / (option: …).
    [KOptVec]: optional_vec (an empty vector is not written; absent reads as the empty vector).
    [KDefault d]: (default_value, d): written like required; absent reads as [d]. *)
Inductive kind : Type := KReq | KOpt | KOptVec | KDefault (d : fv).

Record entry : Type := mk_entry { e_ty : Z; e_kind : kind; e_fc : fc }.

Definition is_req (k : kind) : bool := match k with KReq => true | _ => false end.

Section WithOracle.
Variable pk_valid : bytes -> bool.
Notation fenc := (fenc).
Notation fdec := (fdec pk_valid).

(** one TLV record *)
Definition rec_enc (t : Z) (payload : bytes) : bytes :=
  bigsize_enc t ++ bigsize_enc (len payload) ++ payload.

(** [_encode_tlv!] per kind *)
Definition entry_enc (e : entry) (ov : option fv) : bytes :=
  match e_kind e, ov with
  | KOptVec, Some [] => []
  | _, Some v => rec_enc (e_ty e) (fenc (e_fc e) v)
  | _, None => []
  end.
Fixpoint tlv_enc (es : list entry) (vals : list (option fv)) : bytes :=
  match es, vals with
  | e :: es', v :: vals' => entry_enc e v ++ tlv_enc es' vals'
  | _, _ => []
  end.

Fixpoint find_entry (es : list entry) (t : Z) : option entry :=
  match es with
  | [] => None
  | e :: es' => if e_ty e =? t then Some e else find_entry es' t
  end.

Definition lt_opt (last : option Z) (t : Z) : bool :=
  match last with None => true | Some l => l <? t end.

(** [_check_decoded_tlv_order!] over all fields, in field order: a required field whose type lies
    strictly between the last seen type and the current one was skipped. ([default_value] fields
    are filled in at the end instead; the effect is the same.) *)
Fixpoint order_check (es : list entry) (last : option Z) (typ : Z) : bool :=
  match es with
  | [] => true
  | e :: es' =>
    if is_req (e_kind e) && lt_opt last (e_ty e) && (e_ty e <? typ) then false
    else order_check es' last typ
  end.

(** [_check_missing_tlv!] over all fields after the loop *)
Fixpoint missing_check (es : list entry) (last : option Z) : bool :=
  match es with
  | [] => true
  | e :: es' => if is_req (e_kind e) && lt_opt last (e_ty e) then false else missing_check es' last
  end.

Fixpoint lookup (acc : list (Z * fv)) (t : Z) : option fv :=
  match acc with [] => None | (t', v) :: acc' => if t' =? t then Some v else lookup acc' t end.

(** The struct field finally built from what was read ([_init_tlv_based_struct_field!]). *)
Definition field_of (acc : list (Z * fv)) (e : entry) : option fv :=
  match e_kind e, lookup acc (e_ty e) with
  | KOptVec, None => Some []
  | KDefault d, None => Some d
  | _, r => r
  end.

(** The ['tlv_read] loop.  [acc]: the (type, value) records of known types read so far.
    [fuel]: recursion bound; every iteration consumes at least two bytes, the caller passes the
    input length, so [OutOfFuel] is unreachable (proved). *)
Fixpoint tlv_loop (es : list entry) (fuel : nat) (last : option Z) (acc : list (Z * fv)) (b : bytes)
  : rres (list (Z * fv) * option Z) :=
  match b with
  | [] => ROk (acc, last)                      (* ShortRead before any byte of the type: end of stream *)
  | _ =>
    match fuel with
    | O => RErr "OutOfFuel"
    | S f =>
      dop (typ, r1) <- bigsize_dec b;            (* partial type: ShortRead; non-minimal: InvalidValue *)
      if negb (lt_opt last typ) then RErr "InvalidValue" else   (* types strictly increasing *)
      if negb (order_check es last typ) then RErr "InvalidValue" else
      dop (length, r2) <- bigsize_dec r1;
      let window := ztake length r2 in         (* FixedLengthReader over the stream *)
      let rest := zdrop length r2 in
      match find_entry es typ with
      | Some e =>
        dop (v, lft) <- fdec (e_fc e) window;
        if len window - len lft =? length then tlv_loop es f (Some typ) (acc ++ [(typ, v)]) rest
        else if len r2 <? length then RErr "ShortRead"   (* s.eat_remaining()? *)
        else RErr "InvalidValue"
      | None =>
        if typ mod 2 =? 0 then RErr "UnknownRequiredFeature"
        else if len r2 <? length then RErr "ShortRead"
        else tlv_loop es f (Some typ) acc rest
      end
    end
  end.

Definition tlv_dec (es : list entry) (b : bytes) : rres (list (option fv)) :=
  dop (acc, last) <- tlv_loop es (List.length b) None [] b;
  if missing_check es last then ROk (map (field_of acc) es) else RErr "InvalidValue".

(** Domain of a TLV value list for a schema. *)
Definition val_ok (e : entry) (v : fv) : bool :=
  fdom pk_valid (e_fc e) v && (len (fenc (e_fc e) v) <? 2 ^ 64).
Definition entry_dom (e : entry) (ov : option fv) : bool :=
  match e_kind e, ov with
  | KOpt, None => true
  | KOptVec, Some [] => true
  | _, Some v => val_ok e v
  | _, None => false
  end.
Fixpoint tlv_dom (es : list entry) (vals : list (option fv)) : bool :=
  match es, vals with
  | [], [] => true
  | e :: es', v :: vals' => entry_dom e v && tlv_dom es' vals'
  | _, _ => false
  end.

(** Types strictly ascending (and representable): the precondition every macro invocation must meet. *)
Fixpoint tys_ascending (last : Z) (es : list entry) : bool :=
  match es with
  | [] => true
  | e :: es' => (last <? e_ty e) && (e_ty e <? 2 ^ 64) && fc_wf (e_fc e) && tys_ascending (e_ty e) es'
  end.
Definition tlvs_wf (es : list entry) : bool := tys_ascending (-1) es.

End WithOracle.

(** ------------------------------------------------------------------------------------------
    The length-prefixed TLV suffix of persisted objects: [write_tlv_fields!] / [read_tlv_fields!]
    ([_encode_varint_length_prefixed_tlv!]: BigSize(total length) then the stream; the reader wraps
    the stream in a FixedLengthReader, decodes the TLV stream inside it, then [eat_remaining]). *)
Definition suffix_enc (es : list entry) (vals : list (option fv)) : bytes :=
  let body := tlv_enc es vals in bigsize_enc (len body) ++ body.
Definition suffix_dec (pk_valid : bytes -> bool) (es : list entry) (b : bytes) : rres (list (option fv) * bytes) :=
  dop (n, r) <- bigsize_dec b;
  dop v <- tlv_dec pk_valid es (ztake n r);
  if len r <? n then RErr "ShortRead" else ROk (v, zdrop n r).
