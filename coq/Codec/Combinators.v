(** Byte-level codec combinators: a Gallina model of the primitive readers/writers in
    lightning/src/util/ser.rs (and the few primitive message-field codecs of ln/msgs.rs).
    Bytes are [list Z]; a decoder returns the decoded value and the UNREAD remainder of its input.
    Errors carry the name of the [DecodeError] variant.  Definitions only; proofs are in Proofs/C13*.v. *)
Require Import LdkV.Prim.U64.
Open Scope Z_scope.

Definition bytes := list Z.
Definition len (b : bytes) : Z := Z.of_nat (List.length b).
Definition is_byte (x : Z) : bool := (0 <=? x) && (x <? 256).
Definition bytes_ok (b : bytes) : bool := forallb is_byte b.

(** [Result] bind *)
Definition rbind {A B} (r : rres A) (f : A -> rres B) : rres B :=
  match r with ROk a => f a | RErr e => RErr e end.
Notation "'dop' p <- e ; f" := (rbind e (fun p => f)) (at level 200, p pattern, e at level 100, f at level 200, right associativity).

(** [ztake]/[zdrop]: [firstn]/[skipn] with a [Z] count (lengths read from the wire are up to 2^64;
    they must never be converted to [nat]). *)
Fixpoint ztake (n : Z) (l : bytes) : bytes :=
  match l with [] => [] | x :: t => if n <=? 0 then [] else x :: ztake (n - 1) t end.
Fixpoint zdrop (n : Z) (l : bytes) : bytes :=
  match l with [] => [] | x :: t => if n <=? 0 then l else zdrop (n - 1) t end.

(** [read_exact] of [n] bytes: [ShortRead] if fewer remain. *)
Definition read_n (n : Z) (b : bytes) : rres (bytes * bytes) :=
  if len b <? n then RErr "ShortRead" else ROk (ztake n b, zdrop n b).

(** big-endian integers *)
Fixpoint be_val (acc : Z) (b : bytes) : Z :=
  match b with [] => acc | x :: t => be_val (acc * 256 + x) t end.
Fixpoint be_enc (n : nat) (v : Z) : bytes :=
  match n with O => [] | S k => be_enc k (v / 256) ++ [v mod 256] end.
Definition read_u (n : nat) (b : bytes) : rres (Z * bytes) :=
  dop (x, r) <- read_n (Z.of_nat n) b; ROk (be_val 0 x, r).

(** ser.rs [BigSize] *)
Definition bigsize_enc (v : Z) : bytes :=
  if v <=? 0xFC then [v]
  else if v <=? 0xFFFF then 0xFD :: be_enc 2 v
  else if v <=? 0xFFFFFFFF then 0xFE :: be_enc 4 v
  else 0xFF :: be_enc 8 v.
Definition bigsize_dec (b : bytes) : rres (Z * bytes) :=
  dop (n, r) <- read_u 1 b;
  if n =? 0xFF then
    dop (x, r') <- read_u 8 r; if x <? 0x100000000 then RErr "InvalidValue" else ROk (x, r')
  else if n =? 0xFE then
    dop (x, r') <- read_u 4 r; if x <? 0x10000 then RErr "InvalidValue" else ROk (x, r')
  else if n =? 0xFD then
    dop (x, r') <- read_u 2 r; if x <? 0xFD then RErr "InvalidValue" else ROk (x, r')
  else ROk (n, r).

(** ser.rs [CollectionLength] (prefix of [Vec<u8>] and of the [impl_for_vec!] vectors) *)
Definition cl_enc (n : Z) : bytes :=
  if n <? 0xFFFF then be_enc 2 n else be_enc 2 0xFFFF ++ be_enc 8 (n - 0xFFFF).
Definition cl_dec (b : bytes) : rres (Z * bytes) :=
  dop (v, r) <- read_u 2 b;
  if v =? 0xFFFF then
    dop (x, r') <- read_u 8 r;
    if x + 0xFFFF <? 2 ^ 64 then ROk (x + 0xFFFF, r') else RErr "InvalidValue"
  else ROk (v, r).

(** secp256k1 compact ECDSA signature parse: r and s must be below the group order (zero is accepted). *)
Definition secp_n : Z := 0xFFFFFFFFFFFFFFFFFFFFFFFFFFFFFFFEBAAEDCE6AF48A03BBFD25E8CD0364141.
Definition sig_valid (b : bytes) : bool :=
  (be_val 0 (ztake 32 b) <? secp_n) && (be_val 0 (zdrop 32 b) <? secp_n).

(** [String::from_utf8] validity (Unicode Table 3-7, well-formed UTF-8 byte sequences). *)
Definition in_rng (lo hi x : Z) : bool := (lo <=? x) && (x <=? hi).
Fixpoint utf8_valid (b : bytes) (fuel : nat) : bool :=
  match fuel with
  | O => match b with [] => true | _ => false end
  | S f =>
    match b with
    | [] => true
    | x :: t =>
      if x <=? 0x7F then (0 <=? x) && utf8_valid t f
      else if in_rng 0xC2 0xDF x then
        match t with a :: t' => in_rng 0x80 0xBF a && utf8_valid t' f | _ => false end
      else if x =? 0xE0 then
        match t with a :: b' :: t' => in_rng 0xA0 0xBF a && in_rng 0x80 0xBF b' && utf8_valid t' f | _ => false end
      else if in_rng 0xE1 0xEC x || in_rng 0xEE 0xEF x then
        match t with a :: b' :: t' => in_rng 0x80 0xBF a && in_rng 0x80 0xBF b' && utf8_valid t' f | _ => false end
      else if x =? 0xED then
        match t with a :: b' :: t' => in_rng 0x80 0x9F a && in_rng 0x80 0xBF b' && utf8_valid t' f | _ => false end
      else if x =? 0xF0 then
        match t with a :: b' :: c :: t' => in_rng 0x90 0xBF a && in_rng 0x80 0xBF b' && in_rng 0x80 0xBF c && utf8_valid t' f | _ => false end
      else if in_rng 0xF1 0xF3 x then
        match t with a :: b' :: c :: t' => in_rng 0x80 0xBF a && in_rng 0x80 0xBF b' && in_rng 0x80 0xBF c && utf8_valid t' f | _ => false end
      else if x =? 0xF4 then
        match t with a :: b' :: c :: t' => in_rng 0x80 0x8F a && in_rng 0x80 0xBF b' && in_rng 0x80 0xBF c && utf8_valid t' f | _ => false end
      else false
    end
  end.
Definition is_utf8 (b : bytes) : bool := utf8_valid b (List.length b).

(** ------------------------------------------------------------------------------------------
    Base codecs (self-delimiting).  Values are untyped: an integer or a byte string. *)
Inductive bc : Type :=
| BU (n : nat)        (* u8/u16/u32/u64 (and i64 as its two's-complement u64), big-endian *)
| BBool               (* bool: one byte, 0 or 1, anything else InvalidValue *)
| BAcct               (* msgs.rs AccountableBool: writes 7/0, reads (byte == 7) *)
| BBytes (n : Z)      (* [u8; n], ChannelId, Txid, hashes, NodeId, NodeAlias: no validation *)
| BPk                 (* PublicKey: 33 bytes that must be a valid compressed point (oracle) *)
| BSig                (* ecdsa::Signature: 64 bytes compact, r,s below the group order *)
| BVarCL              (* Vec<u8>: CollectionLength ++ bytes *)
| BVar16              (* ScriptBuf, features: u16 length ++ bytes *)
| BUtf8               (* Error/Warning data: u16 length ++ bytes that must be UTF-8 *)
| BOnion              (* OnionPacket: version(1) key(33) hop_data(1300) hmac(32); an invalid key is kept as an
                         error and re-encoded as 33 zero bytes *)
| BBig                (* BigSize *)
| BOmPacket.          (* msgs.rs OnionMessage tail: u16 length, then onion_message::packet::Packet inside a
                         FixedLengthReader of that length: version(1) key(33, validated) hop_data(length-66) hmac(32);
                         the value is the packet's bytes *)

Inductive bv : Type := VZ (z : Z) | VB (b : bytes).

Section WithOracle.
(** The one primitive that is not modelled: whether 33 bytes are a valid compressed secp256k1 point. *)
Variable pk_valid : bytes -> bool.

Definition zeros33 : bytes := repeat 0 33.
Definition onion_norm (b : bytes) : bytes :=
  let key := ztake 33 (zdrop 1 b) in
  if pk_valid key then b else ztake 1 b ++ zeros33 ++ zdrop 34 b.

Definition benc (c : bc) (v : bv) : bytes :=
  match c, v with
  | BU n, VZ z => be_enc n z
  | BBool, VZ z => [z]
  | BAcct, VZ z => [if z =? 1 then 7 else 0]
  | BBytes _, VB b => b
  | BPk, VB b => b
  | BSig, VB b => b
  | BVarCL, VB b => cl_enc (len b) ++ b
  | BVar16, VB b => be_enc 2 (len b) ++ b
  | BUtf8, VB b => be_enc 2 (len b) ++ b
  | BOnion, VB b => b
  | BBig, VZ z => bigsize_enc z
  | BOmPacket, VB b => be_enc 2 (len b) ++ b
  | _, _ => []
  end.

Definition bdec (c : bc) (b : bytes) : rres (bv * bytes) :=
  match c with
  | BU n => dop (z, r) <- read_u n b; ROk (VZ z, r)
  | BBool => dop (z, r) <- read_u 1 b; if (z =? 0) || (z =? 1) then ROk (VZ z, r) else RErr "InvalidValue"
  | BAcct => dop (z, r) <- read_u 1 b; ROk (VZ (if z =? 7 then 1 else 0), r)
  | BBytes n => dop (x, r) <- read_n n b; ROk (VB x, r)
  | BPk => dop (x, r) <- read_n 33 b; if pk_valid x then ROk (VB x, r) else RErr "InvalidValue"
  | BSig => dop (x, r) <- read_n 64 b; if sig_valid x then ROk (VB x, r) else RErr "InvalidValue"
  | BVarCL => dop (n, r) <- cl_dec b; dop (x, r') <- read_n n r; ROk (VB x, r')
  | BVar16 => dop (n, r) <- read_u 2 b; dop (x, r') <- read_n n r; ROk (VB x, r')
  | BUtf8 => dop (n, r) <- read_u 2 b; dop (x, r') <- read_n n r;
             if is_utf8 x then ROk (VB x, r') else RErr "InvalidValue"
  | BOnion => dop (x, r) <- read_n 1366 b; ROk (VB (onion_norm x), r)
  | BBig => dop (z, r) <- bigsize_dec b; ROk (VZ z, r)
  | BOmPacket =>
    dop (n, r) <- read_u 2 b;
    let w := ztake n r in                       (* FixedLengthReader::new(r, len); the stream may be shorter *)
    dop (hdr, w1) <- read_n 34 w;               (* version, then the key: ShortRead if either is cut *)
    if pk_valid (zdrop 1 hdr) then
      (* hop_data_len = remaining_bytes().saturating_sub(66), read in chunks, then the 32-byte hmac:
         every failure from here on is a ShortRead *)
      dop (body, _) <- read_n (Z.max 0 (n - 66) + 32) w1;
      ROk (VB (hdr ++ body), zdrop n r)
    else RErr "InvalidValue"
  end.

(** Domain of a base codec: the values the encoder represents faithfully. *)
Definition bdom (c : bc) (v : bv) : bool :=
  match c, v with
  | BU n, VZ z => (0 <=? z) && (z <? 256 ^ Z.of_nat n)
  | BBool, VZ z => (z =? 0) || (z =? 1)
  | BAcct, VZ z => (z =? 0) || (z =? 1)
  | BBytes n, VB b => len b =? n
  | BPk, VB b => (len b =? 33) && pk_valid b
  | BSig, VB b => (len b =? 64) && sig_valid b
  | BVarCL, VB b => len b <? 2 ^ 64
  | BVar16, VB b => len b <? 65536
  | BUtf8, VB b => (len b <? 65536) && is_utf8 b
  | BOnion, VB b => (len b =? 1366) && (if pk_valid (ztake 33 (zdrop 1 b)) then true
                                         else forallb (Z.eqb 0) (ztake 33 (zdrop 1 b)))
  | BBig, VZ z => (0 <=? z) && (z <? 2 ^ 64)
  | BOmPacket, VB b => (66 <=? len b) && (len b <? 65536) && pk_valid (zdrop 1 (ztake 34 b))
  | _, _ => false
  end.

(** Codecs whose every encoding has at least one byte (vector elements must be such). *)
Definition bc_pos (c : bc) : bool :=
  match c with BU n => negb (Nat.eqb n 0) | BBytes n => 1 <=? n | _ => true end.

(** ------------------------------------------------------------------------------------------
    Field codecs.  A field value is a list of base values. *)
Inductive fc : Type :=
| FB (c : bc)            (* one base value *)
| FSeq (l : list bc)     (* a struct of base fields written back to back (impl_writeable!); [FSeq []] is [()] *)
| FVecCL (c : bc)        (* Vec<T> via impl_for_vec!: CollectionLength count ++ elements *)
| FRest                  (* WithoutLength<Vec<u8>/ScriptBuf/features>, read_to_end: all remaining bytes *)
| FRestVec (c : bc)      (* WithoutLength<Vec<T>>: elements until the input is exhausted *)
| FOpaque.               (* a codec this development does not model; never decodes, empty domain *)

Definition fv := list bv.

Fixpoint seq_enc (l : list bc) (vs : list bv) : bytes :=
  match l, vs with
  | c :: l', v :: vs' => benc c v ++ seq_enc l' vs'
  | _, _ => []
  end.
Fixpoint seq_dec (l : list bc) (b : bytes) : rres (list bv * bytes) :=
  match l with
  | [] => ROk ([], b)
  | c :: l' => dop (v, r) <- bdec c b; dop (vs, r') <- seq_dec l' r; ROk (v :: vs, r')
  end.
Fixpoint seq_dom (l : list bc) (vs : list bv) : bool :=
  match l, vs with
  | [], [] => true
  | c :: l', v :: vs' => bdom c v && seq_dom l' vs'
  | _, _ => false
  end.

Definition vec_enc (c : bc) (vs : list bv) : bytes := List.concat (map (benc c) vs).
(** [n] elements; [fuel] bounds the recursion (the caller passes the input length: every element
    consumes at least one byte, so fuel cannot run out before the input does). *)
Fixpoint vec_dec (c : bc) (fuel : nat) (n : Z) (b : bytes) : rres (list bv * bytes) :=
  if n <=? 0 then ROk ([], b) else
  match fuel with
  | O => dop (_, _) <- bdec c b; RErr "OutOfFuel"
  | S f => dop (v, r) <- bdec c b; dop (vs, r') <- vec_dec c f (n - 1) r; ROk (v :: vs, r')
  end.
(** until exhausted: a [ShortRead] before any byte was read ends the vector *)
Fixpoint restvec_dec (c : bc) (fuel : nat) (b : bytes) : rres (list bv * bytes) :=
  match b with
  | [] => ROk ([], [])
  | _ => match fuel with
         | O => RErr "OutOfFuel"
         | S f => dop (v, r) <- bdec c b; dop (vs, r') <- restvec_dec c f r; ROk (v :: vs, r')
         end
  end.

Definition fenc (c : fc) (v : fv) : bytes :=
  match c, v with
  | FB c, [x] => benc c x
  | FSeq l, vs => seq_enc l vs
  | FVecCL c, vs => cl_enc (Z.of_nat (List.length vs)) ++ vec_enc c vs
  | FRest, [VB b] => b
  | FRestVec c, vs => vec_enc c vs
  | _, _ => []
  end.

Definition fdec (c : fc) (b : bytes) : rres (fv * bytes) :=
  match c with
  | FB c => dop (v, r) <- bdec c b; ROk ([v], r)
  | FSeq l => seq_dec l b
  | FVecCL c => dop (n, r) <- cl_dec b; vec_dec c (List.length r) n r
  | FRest => ROk ([VB b], [])
  | FRestVec c => restvec_dec c (List.length b) b
  | FOpaque => RErr "Unmodelled"
  end.

Definition fdom (c : fc) (v : fv) : bool :=
  match c, v with
  | FB c, [x] => bdom c x
  | FSeq l, vs => seq_dom l vs
  | FVecCL c, vs => forallb (bdom c) vs && (Z.of_nat (List.length vs) <? 2 ^ 64)
  | FRest, [VB b] => true
  | FRestVec c, vs => forallb (bdom c) vs
  | _, _ => false
  end.

(** self-delimiting field codecs (usable before other fields) *)
Definition fc_prefix (c : fc) : bool :=
  match c with FB _ => true | FSeq _ => true | FVecCL c => bc_pos c | _ => false end.
(** field codecs that are well formed at all (vector elements are non-empty) *)
Definition fc_wf (c : fc) : bool :=
  match c with FVecCL c => bc_pos c | FRestVec c => bc_pos c | _ => true end.

End WithOracle.
